package props

import (
	"fmt"
	"go/token"
	"go/types"
	"sort"
	"strings"

	"golang.org/x/tools/go/ssa"

	"jrpcvet/internal/chk"
	"jrpcvet/internal/facts"
	"jrpcvet/internal/ir"
)

// Rules written after the fourth round of independently seeded breakages.
// Each states a structural necessary condition of a clause of its property.

// ruleDeliveryLoopVisitsAll (C04, C05): the loop that hands the members of an
// inbound message to the function that completes pending requests has no
// early exit, so one malformed member cannot cost the replies that follow it.
func ruleDeliveryLoopVisitsAll(c *chk.Ctx) {
	n := 0
	seen := map[*ssa.BasicBlock]bool{}
	for _, s := range slotSends(c) {
		if s.owner != "client" {
			continue
		}
		for _, cs := range c.P.Callers(s.fn) {
			if !ir.InCycle(cs.Instr.Block()) {
				continue
			}
			hdr := loopHeaderOf(cs.Instr.Block())
			if hdr == nil || seen[hdr] {
				continue
			}
			seen[hdr] = true
			n++
			early := loopEarlyExits(hdr)
			where := ""
			if len(early) > 0 && len(early[0][0].Instrs) > 0 {
				where = c.P.Pos(early[0][0].Instrs[len(early[0][0].Instrs)-1].Pos())
			}
			c.Check(len(early) == 0, "PAIR.loop", cs.Caller, "every inbound member is delivered", cs.Instr.Pos(), "the loop over the members of an inbound message has no early exit: every member reaches the delivery function",
				"the loop that delivers the members of an inbound message can be left early (at "+where+"): the replies that follow in the same message would never complete their requests")
		}
	}
	if n == 0 {
		c.Undecided("PAIR.loop", nil, "client delivery loop", 0, "no loop calling the client's delivery function found")
	}
}

// ruleFirstWaiterReleases (C05): the waiter that receives a Response's message
// always releases the context observer: on the ok edge of the slot receive,
// every path reaches a call of the Response's cancel function.
func ruleFirstWaiterReleases(c *chk.Ctx) {
	n := 0
	for _, f := range pkgFuncs(c, c.M.Pkg) {
		ir.Instrs(f, func(ins ssa.Instruction) {
			u, commaOk, ok := slotRecvAt(c, ins)
			if !ok || !commaOk {
				return
			}
			n++
			isCancel := func(i ssa.Instruction) bool {
				ci, ok := i.(ssa.CallInstruction)
				return ok && chk.LoadsField(ci.Common().Value, c.M.RCancel)
			}
			goal := c.P.LiftGoal(isCancel, 0)
			okAll, found := true, false
			var at ssa.Instruction
			for _, r := range *u.Referrers() {
				e, ok := r.(*ssa.Extract)
				if !ok || e.Index != 1 {
					continue
				}
				for _, r2 := range *e.Referrers() {
					iff, ok := r2.(*ssa.If)
					if !ok {
						continue
					}
					found = true
					succ := iff.Block().Succs[0]
					if len(succ.Instrs) == 0 {
						okAll = false
						continue
					}
					if goal(succ.Instrs[0]) {
						continue
					}
					reach, where := ir.PathQuery{Goal: goal}.MustReach(succ.Instrs[0])
					if !reach {
						okAll, at = false, where
					}
				}
			}
			where := ""
			if at != nil {
				where = " (a path leaves at " + c.P.Pos(at.Pos()) + ")"
			}
			c.Check(found && okAll, "PAIR.release", f, "first waiter releases the observer", ins.Pos(), "on the ok edge of the slot receive every path calls the Response's cancel function", "the waiter that settles a Response does not always call its cancel function"+where+": the request's context observer goroutine would outlive the request (and the client's Close)")
		})
	}
	if n == 0 {
		c.Undecided("PAIR.release", nil, "slot receiver", 0, "no comma-ok receive on a response slot found")
	}
}

// ruleNoLockBeforeHandler (C06): between obtaining a slot and calling the
// handler, the invoke function does not touch the server lock (which the
// delivery function holds across a channel Send): a slot holder never waits on
// a reply being written.
func ruleNoLockBeforeHandler(c *chk.Ctx, d *dispatchModel) {
	f := d.invoke
	var acq *ssa.Call
	ir.Instrs(f, func(ins ssa.Instruction) {
		if call, ok := ins.(*ssa.Call); ok && ir.IsCallTo(&call.Call, "(*golang.org/x/sync/semaphore.Weighted).Acquire") {
			acq = call
		}
	})
	hc, _ := d.handlerCall.(*ssa.Call)
	if acq == nil || hc == nil {
		return // reported by PAIR.sem
	}
	lock := ownerLock(c, "server")
	bad := ""
	for _, ins := range between(acq, hc) {
		if releases(c, ins, lock) {
			bad = c.P.Pos(ins.Pos())
		}
		if ci, ok := ins.(ssa.CallInstruction); ok {
			if op, lp, ok := facts.IsMutexOp(ci.Common()); ok && op == "lock" && lp == lock {
				bad = c.P.Pos(ins.Pos())
			}
		}
	}
	c.Check(bad == "", "GO.nowait", f, "no server lock between slot and handler", hc.Pos(), "between Acquire and the handler call nothing takes the server lock", "with a slot acquired, the invoke function takes the server lock (at "+bad+") before running the handler: while a reply is being written to a slow peer (the lock is held across Send) a slot holder executes nothing, so fewer handlers than the limit run although calls are waiting")
}

// ruleFreshCancelPerReservation (C07): the cancel function stored under a
// reserved id comes from a context.WithCancel executed for that reservation:
// no path leads from one reservation to the next without creating a new one.
func ruleFreshCancelPerReservation(c *chk.Ctx, d *dispatchModel) {
	var mu *ssa.MapUpdate
	ir.Instrs(d.setContext, func(ins ssa.Instruction) {
		if m, ok := ins.(*ssa.MapUpdate); ok && chk.LoadsField(m.Map, c.M.SUsed) {
			mu = m
		}
	})
	if mu == nil {
		c.Undecided("PROV.cancel", nil, "ruleFreshCancelPerReservation: anchor", 0, "the code this rule is anchored in was not found (mu == nil)")
		return
	}
	isWC := func(v ssa.Value) bool {
		e, ok := v.(*ssa.Extract)
		if !ok || e.Index != 1 {
			return false
		}
		call, ok := e.Tuple.(*ssa.Call)
		return ok && ir.IsCallTo(&call.Call, "context.WithCancel", "context.WithTimeout", "context.WithDeadline")
	}
	var wcs []*ssa.Call
	okSrc := true
	sameVal := func(v ssa.Value) bool { return v == mu.Value || ir.SameValue(v, mu.Value) }
	nonNilHere := ir.ProvesNonNil(c.P.CondsWithin(mu, mu.Parent()), sameVal)
	for _, src := range c.P.SourcesStop(mu.Value, isWC) {
		if !isWC(src) {
			if ir.IsNilConst(src) && nonNilHere {
				continue // "no cancel function" from a helper, excluded by the != nil test at the reservation
			}
			okSrc = false
			continue
		}
		wcs = append(wcs, src.(*ssa.Extract).Tuple.(*ssa.Call))
	}
	fresh := okSrc && len(wcs) == 1
	why := "the stored cancel function does not come from exactly one context.WithCancel call"
	if fresh {
		wc := wcs[0]
		// in the smallest function that contains both the WithCancel call and the reservation
		// (directly or through private helpers): the call precedes the reservation, and from a
		// reservation the next one is not reachable without passing the WithCancel call again
		root := c.P.RegionRoot(wc.Parent(), mu.Parent())
		if root == nil {
			root = wc.Parent()
		}
		wAnchors := anchorsIn(c, wc, root)
		isW := func(i ssa.Instruction) bool {
			for _, w := range wAnchors {
				if i == w {
					return true
				}
			}
			return false
		}
		for _, a := range anchorsIn(c, mu, root) {
			dominated := isW(a)
			for _, w := range wAnchors {
				if ir.InstrDominates(w, a) {
					dominated = true
				}
			}
			if !dominated {
				fresh, why = false, "the WithCancel call does not precede the reservation on every path"
			}
			again, _ := ir.Reaches(a, func(i ssa.Instruction) bool { return i == a }, isW)
			if again && !isW(a) {
				fresh, why = false, "a second reservation can be made without creating a new cancellable context (the cancel function is shared)"
			}
		}
		if len(anchorsIn(c, mu, root)) == 0 || len(wAnchors) == 0 {
			fresh, why = false, "the reservation is not reached from the function that creates the cancellable context"
		}
		// and that function is itself entered once per reservation (not once per batch): its call
		// sites inside the check/assign region are where the per-task loop is
	}
	c.Check(fresh, "PROV.cancel", d.setContext, "each reservation gets its own cancel function", mu.Pos(), "the cancel function stored under an id is the result of a context.WithCancel executed for that very reservation", why+": cancelling one call by id would also cancel calls that were never named")
}

// ruleCancelExactID (C07): CancelRequest consults the in-flight table with
// exactly the id it was given.
func ruleCancelExactID(c *chk.Ctx) {
	n := 0
	for _, f := range pkgFuncs(c, c.M.Pkg) {
		ir.Instrs(f, func(ins ssa.Instruction) {
			lk, ok := ins.(*ssa.Lookup)
			if !ok || !chk.LoadsField(lk.X, c.M.SUsed) {
				return
			}
			// only lookups whose result is invoked (a cancellation), not the duplicate check
			invoked := false
			var vals []ssa.Value
			vals = append(vals, lk)
			for _, r := range *lk.Referrers() {
				if e, ok := r.(*ssa.Extract); ok && e.Index == 0 {
					vals = append(vals, e)
				}
			}
			// (a private accessor that hands the entry back: what its callers do with it)
			for i := 0; i < len(vals) && i < 8; i++ {
				for _, r := range *vals[i].Referrers() {
					ret, isRet := r.(*ssa.Return)
					if !isRet || ir.Exported(f) || c.P.UsedAsValue(f) {
						continue
					}
					ri := -1
					for k, rv := range ret.Results {
						if rv == vals[i] {
							ri = k
						}
					}
					for _, site := range c.P.Callers(f) {
						call, isCall := site.Instr.(*ssa.Call)
						if !isCall || ri < 0 {
							continue
						}
						if len(ret.Results) == 1 {
							vals = append(vals, call)
							continue
						}
						for _, cr := range *call.Referrers() {
							if e, isE := cr.(*ssa.Extract); isE && e.Index == ri {
								vals = append(vals, e)
							}
						}
					}
				}
			}
			for _, v := range vals {
				for _, r := range *v.Referrers() {
					if ci, ok := r.(ssa.CallInstruction); ok && ci.Common().Value == v {
						invoked = true
					}
				}
			}
			if !invoked {
				return
			}
			// reached from an exported entry point with an id argument? The key is followed through
			// the parameters of private helpers to every place it comes from.
			var judge func(key ssa.Value, fn *ssa.Function, depth int)
			judge = func(key ssa.Value, fn *ssa.Function, depth int) {
				key = ir.NormCell(key)
				prm, isParam := key.(*ssa.Parameter)
				if isParam {
					g := prm.Parent()
					if g.Parent() == nil && ir.Exported(g) && ir.RecvNamed(g) == c.M.Server {
						n++
						c.Pass("PROV.cancel", g, "cancellation looks up exactly the given id", lk.Pos(), "the in-flight table is consulted with the method's own id argument, unmodified")
						return
					}
					if depth >= 3 || ir.Exported(g) || c.P.UsedAsValue(g) {
						return
					}
					idx := -1
					for i, q := range g.Params {
						if q == prm {
							idx = i
						}
					}
					for _, site := range c.P.Callers(g) {
						if args := site.Instr.Common().Args; idx >= 0 && idx < len(args) {
							judge(args[idx], site.Caller, depth+1)
						}
					}
					return
				}
				// a cancellation keyed by something computed: is it inside an exported method's region?
				for _, g := range pkgFuncs(c, c.M.Pkg) {
					if g.Parent() == nil && ir.Exported(g) && ir.RecvNamed(g) == c.M.Server && (g == fn || c.P.InExt(g, fn)) && len(c.P.Ext(g)) < 12 {
						n++
						c.Fail("PROV.cancel", g, "cancellation looks up exactly the given id", lk.Pos(), "the cancel entry point looks up a key other than the id it was given (a derived or re-quoted form): an unknown or finished id could cancel a different call that is in flight")
					}
				}
			}
			judge(lk.Index, f, 0)
		})
	}
	if n == 0 {
		c.Undecided("PROV.cancel", nil, "cancel entry point", 0, "no exported Server method looks an id up in the in-flight table and invokes the entry")
	}
}

// ruleCallbackTakeCompletes (C08, C09): whoever removes an entry from the
// callback table completes it: on every path from the removal to the
// function's exit the Response's slot is written or its context cancelled.
// (The stop function cancels only the entries it still finds in the table.)
func ruleCallbackTakeCompletes(c *chk.Ctx) {
	n := 0
	// the table is never emptied wholesale outside the stop function: an entry's watcher (or
	// the reply filter) finds it, removes it and completes the caller — an entry that is gone
	// when the watcher looks is taken for one that was already completed
	stop := stopFunc(c, "server")
	for _, f := range pkgFuncs(c, c.M.Pkg) {
		ir.Instrs(f, func(ins ssa.Instruction) {
			call, ok := isClearOn(ins, c.M.SCall)
			if !ok {
				return
			}
			inStop := stop != nil && (f == stop || c.P.InExt(stop, f))
			c.Check(inStop, "TOKEN.take", f, "callback table cleared only by the stop function", call.Pos(), "the wholesale clear sits in the stop function", "the table of pending callbacks is emptied outside the stop function: the watcher of a callback that is still pending would find no entry and deliver nothing, so that Callback never returns")
		})
	}
	for _, f := range pkgFuncs(c, c.M.Pkg) {
		ir.Instrs(f, func(ins ssa.Instruction) {
			del, ok := isDeleteOn(ins, c.M.SCall)
			if !ok {
				return
			}
			n++
			goal := func(i ssa.Instruction) bool {
				if _, _, ok := slotWriteAt(c, i); ok {
					return true
				}
				ci, ok := i.(ssa.CallInstruction)
				return ok && chk.LoadsField(ci.Common().Value, c.M.RCancel)
			}
			// a completion that precedes the removal in the same critical section counts as well
			done := false
			ir.Instrs(f, func(i2 ssa.Instruction) {
				if goal(i2) && ir.InstrDominates(i2, del) {
					done = true
				}
			})
			var at ssa.Instruction
			if !done {
				done, at = ir.PathQuery{Goal: c.P.LiftGoal(goal, 0)}.MustReach(del)
			}
			// the removal may sit in a method of a table type ("take", "drop", "forget") that
			// leaves the completion to its callers: then every caller completes the entry on the
			// edge on which the method reports that it removed one
			if !done && f.Parent() == nil && !ir.Exported(f) && !c.P.UsedAsValue(f) && len(c.P.Callers(f)) > 0 {
				allSites := true
				for _, site := range c.P.Callers(f) {
					call, isCall := site.Instr.(*ssa.Call)
					if !isCall {
						allSites = false
						break
					}
					var starts []ssa.Instruction
					if f.Signature.Results().Len() == 0 {
						starts = append(starts, call)
					} else if _, isTake := takeHelper(c, f, c.M.SCall, ownerLock(c, "server")); !isTake {
						// the result must be the looked-up entry (or its presence flag) itself
						allSites = false
						break
					} else {
						// the edges on which the result says "removed": non-nil entry / true
						for _, b := range site.Caller.Blocks {
							iff, isIf := b.Instrs[len(b.Instrs)-1].(*ssa.If)
							if !isIf {
								continue
							}
							_ = iff
							for _, succ := range b.Succs {
								cd, has := ir.EdgeOwnCond(b, succ)
								if !has {
									continue
								}
								for _, n := range ir.NormConds([]ir.Cond{cd}) {
									hit := n.V == ssa.Value(call) && n.Truth
									if x, eq, isCmp := ir.NilCompare(n.V); isCmp && ir.NormCell(x) == ssa.Value(call) && eq != n.Truth {
										hit = true
									}
									if hit && len(succ.Instrs) > 0 {
										starts = append(starts, succ.Instrs[0])
									}
								}
							}
						}
					}
					if len(starts) == 0 {
						allSites = false
						at = call
						break
					}
					for _, st := range starts {
						if goal(st) {
							continue
						}
						ok2, at2 := ir.PathQuery{Goal: c.P.LiftGoal(goal, 0)}.MustReach(st)
						if !ok2 {
							allSites = false
							at = at2
						}
					}
				}
				if allSites {
					done = true
					at = nil
				}
			}
			where := ""
			if at != nil {
				where = " (a path leaves at " + c.P.Pos(at.Pos()) + ")"
			}
			c.Check(done, "TOKEN.take", f, "callback entry removed ⇒ completed", del.Pos(), "every path from the removal of a callback entry writes its slot or cancels its context", "a callback entry is removed from the table without its slot being written or its context cancelled"+where+": its watcher goroutine is no longer reachable by the stop function and would outlive the server")
		})
	}
	if n == 0 {
		c.Undecided("TOKEN.take", nil, "callback removal", 0, "no removal from the callback table found")
	}
}

// ruleStopAlwaysCloses (C10, C08): in the stop function the channel field is
// cleared only after Close was called: no stop cause skips the Close.
func ruleStopAlwaysCloses(c *chk.Ctx, owner string) {
	stop := stopFunc(c, owner)
	if stop == nil {
		return // reported elsewhere
	}
	var closeCall ssa.CallInstruction
	for _, s := range chanSites(c, "Close") {
		if s.owners[owner] {
			closeCall = s.instr
		}
	}
	n := 0
	c.P.ExtInstrs(stop, func(ins ssa.Instruction) {
		if !isStoreNilTo(ins, ownerCh(c, owner)) {
			return
		}
		n++
		c.Check(closeCall != nil && c.P.IDominates(closeCall, ins), "RUN.stopOnce", stop, owner+" channel cleared only after Close", ins.Pos(), "the store that clears the channel field is dominated by the Close call", "the stop function can clear the channel field on a path that did not call Close (a stop cause for which Close is skipped): the channel would never be closed, since later stops are no-ops")
	})
	if n == 0 {
		c.Undecided("RUN.stopOnce", stop, owner+" channel cleared", stop.Pos(), "the stop function does not clear the channel field")
	}
}

// ruleCallbackMarshalErrorReported (C14, C13): in the client's callback
// runner, when marshalling the handler's result fails the reply gets an error
// member on every path (it is never sent with neither result nor error).
func ruleCallbackMarshalErrorReported(c *chk.Ctx) {
	n := 0
	for _, f := range c.P.Funcs {
		if !inPkg(c, f, c.M.Pkg) {
			continue
		}
		// the function that stores json.Marshal's bytes into the result member of a message
		ir.Instrs(f, func(ins ssa.Instruction) {
			call, ok := ins.(*ssa.Call)
			if !ok || !ir.IsCallTo(&call.Call, "encoding/json.Marshal") {
				return
			}
			storesR := false
			for _, r := range *call.Referrers() {
				e, ok := r.(*ssa.Extract)
				if !ok || e.Index != 0 {
					continue
				}
				for _, r2 := range *e.Referrers() {
					if st, ok := r2.(*ssa.Store); ok && chk.IsField(st.Addr, c.M.JR) {
						storesR = true
					}
					if ct, ok := r2.(*ssa.ChangeType); ok {
						for _, r3 := range *ct.Referrers() {
							if st, ok := r3.(*ssa.Store); ok && chk.IsField(st.Addr, c.M.JR) {
								storesR = true
							}
						}
					}
				}
			}
			// (also through a variable that collects the result before the message is built)
			if !storesR {
				var flows func(v ssa.Value, depth int) bool
				flows = func(v ssa.Value, depth int) bool {
					v = ir.NormCell(v)
					if ct, isCT := v.(*ssa.ChangeType); isCT {
						v = ct.X
					}
					if ir.IsExtractOf(v, call, 0) {
						return true
					}
					if phi, isPhi := v.(*ssa.Phi); isPhi && depth < 4 {
						for _, e := range phi.Edges {
							if flows(e, depth+1) {
								return true
							}
						}
					}
					return false
				}
				ir.Instrs(f, func(i2 ssa.Instruction) {
					if st, isSt := i2.(*ssa.Store); isSt && chk.IsField(st.Addr, c.M.JR) && flows(st.Val, 0) {
						storesR = true
					}
				})
			}
			// or hands them, as one of its results, to callers that store that result there
			// (a private "outcome" function returning the result bytes and the error to send)
			errIdx := -1
			if !storesR && !ir.Exported(f) && f.Signature.Results().Len() >= 2 {
				resIdx := -1
				for _, r := range ir.Returns(f) {
					for i := range r.Results {
						v := ir.ReturnResult(r, i)
						if ct, isCT := v.(*ssa.ChangeType); isCT {
							v = ct.X
						}
						if ir.IsExtractOf(ir.NormCell(v), call, 0) {
							resIdx = i
						}
					}
				}
				sites := c.P.Callers(f)
				if resIdx >= 0 && len(sites) > 0 && !c.P.UsedAsValue(f) {
					allR, eIdx := true, -1
					for _, s := range sites {
						cv, isV := s.Instr.(*ssa.Call)
						if !isV {
							allR = false
							continue
						}
						gotR := false
						for _, r := range *cv.Referrers() {
							e, isE := r.(*ssa.Extract)
							if !isE {
								continue
							}
							for _, r2 := range *e.Referrers() {
								st, isSt := r2.(*ssa.Store)
								if !isSt || st.Val != ssa.Value(e) {
									continue
								}
								if e.Index == resIdx && chk.IsField(st.Addr, c.M.JR) {
									gotR = true
								}
								if e.Index != resIdx && chk.IsField(st.Addr, c.M.JE) {
									eIdx = e.Index
								}
							}
						}
						if !gotR {
							allR = false
						}
					}
					if allR && eIdx >= 0 {
						storesR, errIdx = true, eIdx
					}
				}
			}
			if !storesR {
				return
			}
			n++
			// the failing edge of this Marshal
			var isErrD func(v ssa.Value, depth int) bool
			isErrD = func(v ssa.Value, depth int) bool {
				v = ir.NormCell(v)
				if ir.IsExtractOf(v, call, 1) {
					return true
				}
				if phi, ok := v.(*ssa.Phi); ok && depth < 4 {
					for _, e := range phi.Edges {
						if isErrD(e, depth+1) {
							return true
						}
					}
				}
				return false
			}
			isErr := func(v ssa.Value) bool { return isErrD(v, 0) }
			var fail *ssa.BasicBlock
			ir.Instrs(f, func(i2 ssa.Instruction) {
				iff, ok := i2.(*ssa.If)
				if !ok {
					return
				}
				if hit, _ := ir.Reaches(call, func(i ssa.Instruction) bool { return i == ssa.Instruction(iff) }, nil); !hit {
					return
				}
				x, eq, ok := ir.NilCompare(iff.Cond)
				if !ok || !isErr(x) {
					return
				}
				if fail != nil {
					return // the first test after the call decides
				}
				if eq {
					fail = iff.Block().Succs[1]
				} else {
					fail = iff.Block().Succs[0]
				}
			})
			if fail == nil || len(fail.Instrs) == 0 {
				c.Fail("ERR.propagate", f, "callback marshal failure reported", call.Pos(), "the error of json.Marshal for the callback result is never tested: an unmarshalable result would be sent as a reply with neither result nor error")
				return
			}
			goal := func(i ssa.Instruction) bool {
				if errIdx >= 0 {
					// the outcome function: a return whose error result is not the nil constant
					r, isR := i.(*ssa.Return)
					return isR && errIdx < len(r.Results) && !ir.IsNilConst(ir.ReturnResult(r, errIdx))
				}
				st, ok := i.(*ssa.Store)
				return ok && chk.IsField(st.Addr, c.M.JE) && !ir.IsNilConst(st.Val)
			}
			ok2 := goal(fail.Instrs[0])
			var at ssa.Instruction
			if !ok2 {
				ok2, at = ir.PathQuery{Goal: goal}.MustReach(fail.Instrs[0])
			}
			if !ok2 && errIdx < 0 {
				// the error member may be chosen into a variable first and stored once, after
				// the branches: follow each path from the Marshal with the values its phis take
				okPaths, nFail := true, 0
				complete := ir.WalkNilPaths(call.Block(), func(path []*ssa.BasicBlock, resolve func(ssa.Value) ssa.Value) bool {
					b := path[len(path)-1]
					if _, isRet := b.Instrs[len(b.Instrs)-1].(*ssa.Return); !isRet {
						return true
					}
					failing := false
					for i := 0; i+1 < len(path); i++ {
						iff, isIf := path[i].Instrs[len(path[i].Instrs)-1].(*ssa.If)
						if !isIf {
							continue
						}
						x, eq, isCmp := ir.NilCompare(iff.Cond)
						if !isCmp || !ir.IsExtractOf(ir.NormCell(resolve(x)), call, 1) {
							continue
						}
						tookTrue := path[i].Succs[0] == path[i+1]
						if eq != tookTrue {
							failing = true
						}
					}
					if !failing {
						return false
					}
					nFail++
					var last *ssa.Store
					for _, pb := range path {
						for _, ins := range pb.Instrs {
							if st, isSt := ins.(*ssa.Store); isSt && chk.IsField(st.Addr, c.M.JE) {
								last = st
							}
						}
					}
					if last == nil || ir.IsNilConst(resolve(last.Val)) {
						okPaths = false
						at = b.Instrs[len(b.Instrs)-1]
					}
					return false
				})
				if complete && okPaths && nFail > 0 {
					ok2 = true
				}
			}
			where := ""
			if at != nil {
				where = " (a path leaves at " + c.P.Pos(at.Pos()) + ")"
			}
			c.Check(ok2, "ERR.propagate", f, "callback marshal failure reported", call.Pos(), "on the failing edge of json.Marshal every path gives the reply an error member", "when marshalling the callback result fails the reply does not always get an error member"+where+": it would go out with neither result nor error")
		})
	}
	if n == 0 {
		c.Undecided("ERR.propagate", nil, "callback result marshal", 0, "no json.Marshal whose bytes become a message's result member found in the client")
	}
}

// ruleHasParamsIsPresence (C15): Request.HasParams is exactly "the raw
// parameters are non-empty"; the no-parameter wrapper relies on it.
func ruleHasParamsIsPresence(c *chk.Ctx) {
	f := c.M.Func(c.M.Pkg, "(*Request).HasParams")
	if f == nil {
		c.Undecided("TABLE.params", nil, "HasParams", 0, "Request.HasParams not found")
		return
	}
	ok := true
	n := 0
	for _, r := range ir.Returns(f) {
		n++
		x, y, op, isRel := ir.Rel(ir.Cond{V: ir.ReturnResult(r, 0), Truth: true})
		if !isRel {
			ok = false
			continue
		}
		_, isLen := ir.LenOf(x)
		k, isC := ir.ConstInt(y)
		if !(isLen && isC && ((k == 0 && (op == token.NEQ || op == token.GTR)) || (k == 1 && op == token.GEQ))) {
			ok = false
		}
		if len(ir.CondsAt(r.Block())) != 0 {
			ok = false
		}
	}
	c.Check(ok && n > 0, "TABLE.params", f, "parameters present ⇔ non-empty raw text", f.Pos(), "HasParams is exactly len(params) != 0", "HasParams is not exactly 'the raw parameters are non-empty' (e.g. it treats [] or {} as absent): a function that accepts no parameters would be called although parameters were sent")
}

// rulePositionalNames (C16): Positional records exactly the names it was given.
func rulePositionalNames(c *chk.Ctx) {
	f := c.M.Func(c.M.HandlerPkg, "Positional")
	if f == nil {
		c.Undecided("PAIR.positional", nil, "Positional", 0, "handler.Positional not found")
		return
	}
	var names *ssa.Parameter
	for _, p := range f.Params {
		if sl, ok := p.Type().Underlying().(*types.Slice); ok && sl.Elem().String() == "string" {
			names = p
		}
	}
	stored := false
	c.P.ExtInstrs(f, func(ins ssa.Instruction) {
		st, ok := ins.(*ssa.Store)
		if !ok {
			return
		}
		fa, ok := st.Addr.(*ssa.FieldAddr)
		if !ok {
			return
		}
		fv := ir.FieldVar(fa)
		if fv == nil || !strings.HasSuffix(fv.Type().String(), "[]string") {
			return
		}
		if names != nil && c.P.Canon(st.Val) == ssa.Value(names) {
			stored = true
		}
	})
	c.Check(stored, "PAIR.positional", f, "the given names are the recorded names", f.Pos(), "the names argument is stored in the function info, unfiltered", "Positional does not record the names it was given (they are re-derived, which drops \"-\" and empty names): the exact-length guard would count fewer positions than the function has arguments")
}

// ruleArgsMarshal (C16): Args.MarshalJSON hands the elements to encoding/json:
// every non-constant result is json.Marshal's pair.
func ruleArgsMarshal(c *chk.Ctx) {
	f := c.M.Func(c.M.HandlerPkg, "(Args).MarshalJSON")
	if f == nil {
		c.Undecided("PROV.encoder", nil, "Args.MarshalJSON", 0, "handler.Args.MarshalJSON not found")
		return
	}
	ok, n := true, 0
	for _, r := range ir.Returns(f) {
		v0 := ir.ReturnResult(r, 0)
		if _, isConst := ir.NormCell(v0).(*ssa.Const); isConst {
			continue
		}
		if sl, isSl := v0.(*ssa.Slice); isSl {
			if _, isAl := sl.X.(*ssa.Alloc); isAl {
				continue // a literal such as []byte("[]")
			}
		}
		if cv, isCv := v0.(*ssa.Convert); isCv {
			if _, isK := cv.X.(*ssa.Const); isK {
				continue
			}
		}
		n++
		good := false
		if e, isE := v0.(*ssa.Extract); isE && e.Index == 0 {
			if call, isCall := e.Tuple.(*ssa.Call); isCall && ir.IsCallTo(&call.Call, "encoding/json.Marshal") && ir.IsExtractOf(ir.ReturnResult(r, 1), call, 1) {
				good = true
			}
		}
		if !good {
			ok = false
		}
	}
	c.Check(ok && n > 0, "PROV.encoder", f, "Args encodes through encoding/json", f.Pos(), "every non-literal result of Args.MarshalJSON is json.Marshal's pair", "Args.MarshalJSON assembles its output by hand: elements would not be encoded (nor validated) as encoding/json does, so the array's length or validity can differ from the argument list")
}

// ruleMethodDecodedAsJSON (C17, C02): the member parser decodes the method name
// with encoding/json, straight into the message's method member.
func ruleMethodDecodedAsJSON(c *chk.Ctx) {
	n, okAll := 0, true
	nStores := 0
	for _, f := range pkgFuncs(c, c.M.Pkg) {
		if ir.RecvNamed(ir.Root(f)) != c.M.Jmessage {
			continue
		}
		isParser := false
		for _, p := range ir.Root(f).Params {
			if p.Type().String() == "[]byte" {
				isParser = true
			}
		}
		if !isParser {
			continue
		}
		c.P.ExtInstrs(f, func(ins ssa.Instruction) {
			if st, ok := ins.(*ssa.Store); ok && chk.IsField(st.Addr, c.M.JM) {
				nStores++
				if k, isK := st.Val.(*ssa.Const); !isK || k.Value == nil || k.Value.String() != `""` {
					okAll = false
				}
			}
			call, ok := ins.(*ssa.Call)
			if !ok || !ir.IsCallTo(&call.Call, "encoding/json.Unmarshal") || len(call.Call.Args) != 2 {
				return
			}
			if mi, ok := call.Call.Args[1].(*ssa.MakeInterface); ok {
				if fa, ok := mi.X.(*ssa.FieldAddr); ok && ir.FieldVar(fa) == c.M.JM {
					n++
				}
			}
		})
	}
	c.Check(n >= 1 && okAll, "TABLE.decode", nil, "method name decoded by encoding/json", 0, "the method member is filled by json.Unmarshal into the field itself (all JSON string escapes are honoured)", "the method name is not decoded by encoding/json into the message's method member (a hand-written unquoting differs on JSON escapes such as \\/ and surrogate pairs): valid requests would be refused or mapped to another name")
}

// ruleStartTimeOnlyWhenUnset (C17): the start function sets the start time
// only when it is still zero (a configured or earlier start time survives restarts).
func ruleStartTimeOnlyWhenUnset(c *chk.Ctx) {
	start := startFunc(c)
	if start == nil || c.M.Server == nil {
		c.Undecided("TABLE.info", nil, "ruleStartTimeOnlyWhenUnset: anchor", 0, "the code this rule is anchored in was not found (start == nil || c.M.Server == nil)")
		return
	}
	var field *types.Var
	st := c.M.Server.Underlying().(*types.Struct)
	for i := 0; i < st.NumFields(); i++ {
		if st.Field(i).Type().String() == "time.Time" {
			field = st.Field(i)
		}
	}
	if field == nil {
		c.Undecided("TABLE.info", nil, "start time field", 0, "Server has no time.Time field")
		return
	}
	n := 0
	c.P.ExtInstrs(start, func(ins ssa.Instruction) {
		s2, ok := ins.(*ssa.Store)
		if !ok || !chk.IsField(s2.Addr, field) {
			return
		}
		n++
		alts := ir.CondAltsAt(s2.Block())
		good := len(alts) > 0
		for _, alt := range alts {
			zero := false
			for _, cd := range alt {
				if call, ok := cd.V.(*ssa.Call); ok && cd.Truth && ir.IsCallTo(&call.Call, "(time.Time).IsZero") {
					zero = true
				}
			}
			if !zero {
				good = false
			}
		}
		c.Check(good, "TABLE.info", start, "start time set only when unset", s2.Pos(), "the start time is stored only on the IsZero edge", "the start function can overwrite a start time that is already set (e.g. on every restart): rpc.serverInfo would not report the configured start time")
	})
	// outside the start function the field is filled from the option only, never from the clock:
	// a constructor that reads the clock would make the IsZero edge above dead
	inStart := map[*ssa.Function]bool{}
	for _, g := range c.P.Ext(start) {
		inStart[g] = true
	}
	var fromClock func(v ssa.Value, depth int) bool
	fromClock = func(v ssa.Value, depth int) bool {
		if depth > 5 {
			return false
		}
		for _, src := range c.P.Sources(v) {
			call, ok := src.(*ssa.Call)
			if !ok {
				continue
			}
			if ir.IsCallTo(&call.Call, "time.Now") {
				return true
			}
			for _, a := range call.Call.Args {
				if fromClock(a, depth+1) {
					return true
				}
			}
		}
		return false
	}
	for _, s2 := range c.P.FieldStores(field) {
		if inStart[s2.Parent()] {
			continue
		}
		c.Check(!fromClock(s2.Val, 0), "TABLE.info", s2.Parent(), "start time outside Start comes from the option", s2.Pos(), "the value stored does not come from the clock", "the server's start time is read from the clock outside the start function (e.g. when the server is constructed): it is then never unset when Start runs, and rpc.serverInfo reports the construction time instead of the time the server was started")
	}
}

// ruleParseRequestsNormalisesID (C18, C02): ParseRequests reports the
// null-normalised id, like the server's own dispatch does.
func ruleParseRequestsNormalisesID(c *chk.Ctx) {
	pr := c.M.Func(c.M.Pkg, "ParseRequests")
	if pr == nil {
		c.Undecided("PROV.nullid", nil, "ruleParseRequestsNormalisesID: anchor", 0, "the code this rule is anchored in was not found (pr == nil)")
		return
	}
	n, ok := 0, true
	c.P.ExtInstrs(pr, func(ins ssa.Instruction) {
		st, isSt := ins.(*ssa.Store)
		if !isSt {
			return
		}
		fa, isFA := st.Addr.(*ssa.FieldAddr)
		if !isFA || ir.FieldVar(fa) == nil || ir.FieldVar(fa).Name() != "ID" || ir.FieldOwner(fa) == c.M.Jmessage {
			return
		}
		n++
		good := false
		if cv, isCv := st.Val.(*ssa.Convert); isCv {
			if call, isCall := cv.X.(*ssa.Call); isCall && isNullNormaliser(c, call.Call.StaticCallee()) && chk.LoadsField(call.Call.Args[0], c.M.JID) {
				good = true
			}
		}
		// (or the composition as one function: "" for null, the id's text otherwise)
		if call, isCall := st.Val.(*ssa.Call); isCall && isNullStringNormaliser(c, call.Call.StaticCallee()) && chk.LoadsField(call.Call.Args[0], c.M.JID) {
			good = true
		}
		if !good {
			ok = false
		}
	})
	c.Check(ok && n > 0, "PROV.nullid", pr, "ParseRequests reports the normalised id", pr.Pos(), "the ID of a parsed request is string(normalise(inbound id)): \"id\":null is reported as a notification", "ParseRequests does not null-normalise the id: a member with \"id\":null would be reported with ID \"null\", and the HTTP bridge (which tests ID == \"\") would forward a notification as a call")
}

// ruleGetterAlwaysAnswers (C19): every path through the Getter's ServeHTTP writes a response.
func ruleGetterAlwaysAnswers(c *chk.Ctx) {
	f := jhttpFunc(c, "(Getter).ServeHTTP")
	if f == nil {
		c.Undecided("PAIR.body", nil, "Getter.ServeHTTP", 0, "not found")
		return
	}
	writes := func(i ssa.Instruction) bool {
		ci, ok := i.(ssa.CallInstruction)
		if !ok {
			return false
		}
		cc := ci.Common()
		if cc.IsInvoke() && (cc.Method.Name() == "WriteHeader" || cc.Method.Name() == "Write") {
			return true
		}
		// a repository helper that takes the ResponseWriter writes the reply
		if g := cc.StaticCallee(); g != nil && c.P.InRepo[g] {
			for _, a := range cc.Args {
				if strings.HasSuffix(a.Type().String(), "net/http.ResponseWriter") {
					return true
				}
			}
		}
		return ir.IsCallTo(cc, "net/http.Error")
	}
	ok := c.P.MustPass(f, writes, 0)
	c.Check(ok, "PAIR.body", f, "every request is answered", f.Pos(), "every path through ServeHTTP writes a status/body", "a path through the Getter's ServeHTTP returns without writing anything (an implicit 200 with an empty body): a failed call would not be reported with its status and JSON error object")
}

// ruleAcceptFailureEndsLoop (C20): once the accepter has failed, Loop does not accept again.
func ruleAcceptFailureEndsLoop(c *chk.Ctx) {
	if c.M.ServerPkg == nil {
		c.Undecided("PAIR.loop", nil, "ruleAcceptFailureEndsLoop: anchor", 0, "the code this rule is anchored in was not found (c.M.ServerPkg == nil)")
		return
	}
	loop := c.M.Func(c.M.ServerPkg, "Loop")
	if loop == nil {
		c.Undecided("PAIR.loop", nil, "ruleAcceptFailureEndsLoop: anchor", 0, "the code this rule is anchored in was not found (loop == nil)")
		return
	}
	var accept *ssa.Call
	ir.Instrs(loop, func(ins ssa.Instruction) {
		if call, ok := ins.(*ssa.Call); ok && call.Call.IsInvoke() && call.Call.Method.Name() == "Accept" {
			accept = call
		}
	})
	if accept == nil {
		c.Undecided("PAIR.loop", loop, "accept call", loop.Pos(), "no Accept call found in Loop")
		return
	}
	var fail *ssa.BasicBlock
	ir.Instrs(loop, func(i2 ssa.Instruction) {
		iff, ok := i2.(*ssa.If)
		if !ok || fail != nil {
			return
		}
		x, eq, ok := ir.NilCompare(iff.Cond)
		if !ok || !ir.IsExtractOf(ir.NormCell(x), accept, 1) {
			return
		}
		if eq {
			fail = iff.Block().Succs[1]
		} else {
			fail = iff.Block().Succs[0]
		}
	})
	if fail == nil || len(fail.Instrs) == 0 {
		c.Undecided("PAIR.loop", loop, "accept failure edge", accept.Pos(), "the error of Accept is not tested")
		return
	}
	isAccept := func(i ssa.Instruction) bool { return i == ssa.Instruction(accept) }
	again := isAccept(fail.Instrs[0])
	if !again {
		again, _ = ir.Reaches(fail.Instrs[0], isAccept, nil)
	}
	c.Check(!again, "PAIR.loop", loop, "accept failure ends the loop", accept.Pos(), "from the failing edge of Accept no path leads back to Accept", "after the accepter has failed Loop can call Accept again (a retry): with a persistently failing accepter Loop would never wait for its servers and return the accepter's error")
}

// ruleMarshalOutputImmutable (C13): the bytes json.Marshal produced are never
// written through: no element store into them, and no append onto a shortened
// re-slice of them (which overwrites the tail in place when capacity allows).
// Those bytes go on the wire as raw members.
func ruleMarshalOutputImmutable(c *chk.Ctx) {
	n := 0
	for _, f := range c.P.Funcs {
		if !inPkg(c, f, c.M.Pkg) && !inPkg(c, f, c.M.JhttpPkg) {
			continue
		}
		ir.Instrs(f, func(ins ssa.Instruction) {
			e, ok := ins.(*ssa.Extract)
			if !ok || e.Index != 0 {
				return
			}
			call, ok := e.Tuple.(*ssa.Call)
			if !ok || !ir.IsCallTo(&call.Call, "encoding/json.Marshal") {
				return
			}
			n++
			bad := ""
			seen := map[ssa.Value]bool{}
			var walk func(v ssa.Value, shortened bool, depth int)
			walk = func(v ssa.Value, shortened bool, depth int) {
				if seen[v] || depth > 6 || v.Referrers() == nil {
					return
				}
				seen[v] = true
				for _, r := range *v.Referrers() {
					switch x := r.(type) {
					case *ssa.Slice:
						if x.X == v {
							walk(x, shortened || x.High != nil, depth+1)
						}
					case *ssa.ChangeType:
						walk(x, shortened, depth+1)
					case *ssa.Convert:
						if _, isSlice := x.Type().Underlying().(*types.Slice); isSlice {
							walk(x, shortened, depth+1)
						}
					case *ssa.Phi:
						walk(x, shortened, depth+1)
					case *ssa.IndexAddr:
						if x.X == v {
							for _, r2 := range *x.Referrers() {
								if st, ok := r2.(*ssa.Store); ok && st.Addr == ssa.Value(x) {
									bad = c.P.Pos(st.Pos())
								}
							}
						}
					case *ssa.Store:
						// kept in a local variable: follow its loads
						if al, ok := x.Addr.(*ssa.Alloc); ok && x.Val == v {
							for _, ld := range ir.CellLoads(al) {
								walk(ld, shortened, depth+1)
							}
						}
					case *ssa.Call:
						if b, ok := x.Call.Value.(*ssa.Builtin); ok && b.Name() == "append" && len(x.Call.Args) > 0 && x.Call.Args[0] == v {
							if shortened {
								bad = c.P.Pos(x.Pos())
							}
							walk(x, shortened, depth+1)
						}
						if b, ok := x.Call.Value.(*ssa.Builtin); ok && b.Name() == "copy" && len(x.Call.Args) > 0 && x.Call.Args[0] == v {
							bad = c.P.Pos(x.Pos())
						}
					}
				}
			}
			walk(e, false, 0)
			c.Check(bad == "", "PROV.raw", f, "marshalled bytes are not written through", call.Pos(), "no element store, copy-into or append onto a shortened re-slice of json.Marshal's output", "the bytes json.Marshal produced can be overwritten in place (at "+bad+"): the raw member sent on the wire would no longer be the JSON that was marshalled")
		})
	}
	if n == 0 {
		c.Undecided("PROV.raw", nil, "marshal sites", 0, "no json.Marshal call found")
	}
}

// ruleReportsErrorExact (C15): Check records "the function reports an error"
// exactly when its last result type is identical to the error interface type:
// the flag selects the decoder that turns the function's value into the
// handler's error, so a weaker test (Implements, AssignableTo) would hand a
// concrete result that merely has an Error method back as an error.
func ruleReportsErrorExact(c *chk.Ctx) {
	f := c.M.Func(c.M.HandlerPkg, "Check")
	if f == nil {
		c.Undecided("TABLE.check", nil, "ReportsError", 0, "Check not found")
		return
	}
	isTypeEq := func(cd ir.Cond) bool {
		x, y, op, ok := ir.Rel(cd)
		if !ok || op != token.EQL {
			return false
		}
		for _, p := range [][2]ssa.Value{{x, y}, {y, x}} {
			g := globalLoad(p[0])
			call, isCall := p[1].(*ssa.Call)
			if g != nil && typeGlobalRole(c, g) == "errType" && isCall && call.Call.IsInvoke() && call.Call.Method.Name() == "Out" {
				return true
			}
		}
		return false
	}
	n := 0
	for _, g := range c.P.Ext(f) {
		ir.Instrs(g, func(ins ssa.Instruction) {
			st, ok := ins.(*ssa.Store)
			if !ok {
				return
			}
			fa, ok := st.Addr.(*ssa.FieldAddr)
			if !ok || ir.FieldVar(fa).Name() != "ReportsError" {
				return
			}
			n++
			ok = false
			if k, isC := st.Val.(*ssa.Const); isC && k.Value != nil {
				if k.Value.String() == "false" {
					ok = true // clearing; the true stores carry the obligation
				} else {
					for _, cs0 := range ir.CondAltsAt(st.Block()) {
						for _, cs := range expandPredicateHelpers(c, cs0, 0) {
							for _, cd := range cs {
								if isTypeEq(cd) {
									ok = true
								}
							}
						}
					}
				}
			} else {
				// the value may travel through a field of a small result struct: every way it
				// is produced must be the identity test (or the constant false)
				stopAt := func(v ssa.Value) bool {
					switch v.(type) {
					case *ssa.BinOp, *ssa.Const:
						return true
					}
					return false
				}
				srcs := c.P.SourcesStop(st.Val, stopAt)
				ok = len(srcs) > 0
				for _, src := range srcs {
					good := false
					if k, isK := src.(*ssa.Const); isK && k.Value != nil && k.Value.String() == "false" {
						good = true
					}
					for _, cs := range expandPredicateHelpers(c, []ir.Cond{{V: src, Truth: true}}, 0) {
						if len(cs) == 1 && isTypeEq(cs[0]) {
							good = true
						}
					}
					if !good {
						ok = false
					}
				}
			}
			c.Check(ok, "TABLE.check", g, "ReportsError ⇔ last result is the error type", st.Pos(), "the flag is stored from / under the identity test Out(i) == errType", "FuncInfo.ReportsError is not decided by identity of the last result type with error (e.g. Implements): a function whose only result merely has an Error method would have its result delivered as the handler's error")
		})
	}
	if n == 0 {
		c.Undecided("TABLE.check", f, "ReportsError ⇔ last result is the error type", f.Pos(), "no store to FuncInfo.ReportsError found under Check")
	}
}

// typeGlobalRole names a package-level reflect.Type variable of the handler
// package by what it is initialised from — reflect.TypeOf((*T)(nil)).Elem() —
// rather than by its identifier: "errType" for T = error, "ctxType" for
// context.Context, "strictType" for the DisallowUnknownFields interface.
func typeGlobalRole(c *chk.Ctx, g *ssa.Global) string {
	if g == nil || c.M.HandlerPkg == nil {
		return ""
	}
	init := c.M.HandlerPkg.Func("init")
	role := ""
	ir.Instrs(init, func(ins ssa.Instruction) {
		st, ok := ins.(*ssa.Store)
		if !ok || st.Addr != ssa.Value(g) {
			return
		}
		elem, ok := st.Val.(*ssa.Call)
		if !ok {
			return
		}
		name := func(ts string) {
			switch {
			case ts == "error":
				role = "errType"
			case ts == "context.Context":
				role = "ctxType"
			case strings.Contains(ts, "DisallowUnknownFields"):
				role = "strictType"
			}
		}
		// (reflect.TypeFor[T]() is the same descriptor)
		if callee := elem.Call.StaticCallee(); callee != nil && callee.Origin() != nil && callee.Origin().String() == "reflect.TypeFor" && len(callee.TypeArgs()) == 1 {
			name(types.TypeString(callee.TypeArgs()[0], nil))
			return
		}
		if !elem.Call.IsInvoke() || elem.Call.Method.Name() != "Elem" {
			return
		}
		tof, ok := elem.Call.Value.(*ssa.Call)
		if !ok || !ir.IsCallTo(&tof.Call, "reflect.TypeOf") || len(tof.Call.Args) != 1 {
			return
		}
		arg := tof.Call.Args[0]
		if mi, isMI := arg.(*ssa.MakeInterface); isMI {
			arg = mi.X
		}
		pt, ok := arg.Type().(*types.Pointer)
		if !ok {
			return
		}
		name(types.TypeString(pt.Elem(), nil))
	})
	if role == "" {
		return g.Name()
	}
	return role
}

// ruleErrorValuesImmutable (C14, C18): an *Error that already exists — a
// package sentinel, the handler's error, the error object decoded from the
// wire — is never written to: every store into an Error's fields (or over a
// whole Error) in the root package goes to a value allocated in the same
// function (a composite literal, new, or a local copy). Code, message and data
// therefore arrive as they were produced, and two replies built from the same
// sentinel cannot see each other's data.
func ruleErrorValuesImmutable(c *chk.Ctx) {
	n := 0
	for _, f := range pkgFuncs(c, c.M.Pkg) {
		ir.Instrs(f, func(ins ssa.Instruction) {
			st, ok := ins.(*ssa.Store)
			if !ok {
				return
			}
			var base ssa.Value
			what := ""
			if fa, isFA := st.Addr.(*ssa.FieldAddr); isFA {
				if o := ir.FieldOwner(fa); o == nil || o != c.M.ErrorT {
					return
				}
				base, what = fa.X, "field "+ir.FieldVar(fa).Name()
			} else if pt, isP := st.Addr.Type().(*types.Pointer); isP && types.Identical(pt.Elem(), c.M.ErrorT) {
				base, what = st.Addr, "the whole value"
			} else {
				return
			}
			n++
			b := c.P.Canon(base)
			_, fresh := b.(*ssa.Alloc)
			c.Check(fresh, "PROV.errimmutable", f, "stores into an Error go to a fresh value", st.Pos(), "the Error written ("+what+") is allocated in this function", "an existing Error ("+what+") is modified in place: a sentinel shared by every request, the handler's own error or the error object received from the peer would not arrive as it was produced")
		})
	}
	c.Floor("PROV.errimmutable", 3, "stores building Error values (confirmed by hand: ≥ 3)")
}

// settleFuncs lists the functions that settle a Response: those receiving from
// its slot.
func settleFuncs(c *chk.Ctx) []*ssa.Function {
	var out []*ssa.Function
	for _, f := range pkgFuncs(c, c.M.Pkg) {
		has := false
		ir.Instrs(f, func(ins ssa.Instruction) {
			if _, _, ok := slotRecvAt(c, ins); ok {
				has = true
			}
		})
		if has {
			out = append(out, f)
		}
	}
	return out
}

// ruleBatchWaitsAll (C05): a loop that settles the responses of a batch visits
// every one of them: it has no early exit. A Response is settled only by a
// waiter, so a member skipped by the loop would be returned to the caller
// unsettled — looking like a success with an empty result.
func ruleBatchWaitsAll(c *chk.Ctx) {
	n := 0
	seen := map[*ssa.BasicBlock]bool{}
	for _, w := range settleFuncs(c) {
		for _, cs := range c.P.Callers(w) {
			if !ir.InCycle(cs.Instr.Block()) {
				continue
			}
			hdr := loopHeaderOf(cs.Instr.Block())
			if hdr == nil || seen[hdr] {
				continue
			}
			seen[hdr] = true
			n++
			early := loopEarlyExits(hdr)
			where := ""
			if len(early) > 0 && len(early[0][0].Instrs) > 0 {
				where = c.P.Pos(early[0][0].Instrs[len(early[0][0].Instrs)-1].Pos())
			}
			c.Check(len(early) == 0, "PAIR.loop", cs.Caller, "every response of a batch is settled", cs.Instr.Pos(), "the loop waiting for the responses has no early exit",
				"the loop that waits for the responses of a batch can be left early (at "+where+"): the remaining responses are handed to the caller unsettled, with neither result nor error")
		}
	}
	if n == 0 {
		c.Undecided("PAIR.loop", nil, "batch wait loop", 0, "no loop settling responses found")
	}
}

// rulePayloadSentVerbatim (C11): a framing's Send transmits the caller's bytes
// themselves. Inside every Send method of the channel package the record flows
// only into len/append/copy, writes, repository helpers and library functions
// that cannot hand back a rewritten copy (searches and tests returning ints or
// bools). A library call that takes the record and returns bytes, a string or
// an interface — json.Marshal, bytes.TrimSpace, bytes.ToLower, … — means that
// something other than the record may be transmitted, so a receiver of the same
// framing would not get back the bytes that were sent.
func rulePayloadSentVerbatim(c *chk.Ctx) {
	n := 0
	for _, f := range pkgFuncs(c, c.M.ChanPkg) {
		if ir.BaseName(f) != "Send" || f.Signature.Recv() == nil || len(f.Params) != 2 || f.Params[1].Type().String() != "[]byte" || f.Synthetic != "" {
			continue
		}
		n++
		var bad []string
		seen := map[ssa.Value]bool{}
		var follow func(v ssa.Value)
		follow = func(v ssa.Value) {
			if seen[v] || v.Referrers() == nil {
				return
			}
			seen[v] = true
			for _, r := range *v.Referrers() {
				switch x := r.(type) {
				case *ssa.ChangeType:
					follow(x)
				case *ssa.Convert:
					follow(x)
				case *ssa.MakeInterface:
					follow(x)
				case *ssa.Slice:
					follow(x)
				case *ssa.Phi:
					follow(x)
				case ssa.CallInstruction:
					cc := x.Common()
					if _, isB := cc.Value.(*ssa.Builtin); isB {
						continue
					}
					callee := cc.StaticCallee()
					if callee != nil && c.P.InRepo[callee] {
						continue
					}
					if cc.IsInvoke() && (cc.Method.Name() == "Write" || cc.Method.Name() == "WriteString") {
						continue
					}
					if callee != nil && callee.Pkg != nil {
						// verbatim copies carry the record on
						switch callee.Pkg.Pkg.Path() + "." + callee.Name() {
						case "bytes.Clone", "slices.Clone", "slices.Concat", "slices.Grow", "slices.Clip":
							if v, isV := x.(ssa.Value); isV {
								follow(v)
							}
							continue
						}
					}
					rewrites := false
					res := cc.Signature().Results()
					for i := 0; i < res.Len(); i++ {
						switch t := res.At(i).Type().Underlying().(type) {
						case *types.Slice:
							rewrites = true
						case *types.Basic:
							if t.Info()&types.IsString != 0 {
								rewrites = true
							}
						case *types.Interface:
							if res.At(i).Type().String() != "error" {
								rewrites = true
							}
						}
					}
					if rewrites {
						name := "a library function"
						if callee != nil {
							name = callee.String()
						}
						bad = append(bad, name+" at "+c.P.Pos(x.Pos()))
					}
				}
			}
		}
		follow(f.Params[1])
		c.Check(len(bad) == 0, "PROV.payload", f, "the record is transmitted verbatim", f.Pos(), "the record flows only into len/append/copy, writes and searches", "the record passes through "+strings.Join(bad, ", ")+", which returns a rewritten copy: the bytes transmitted can differ from the bytes given to Send")
	}
	c.Floor("PROV.payload", 3, "Send methods of the channel package (confirmed by hand: hdr, jsonc, split)")
}

// errorMappers lists repository functions that take an error and return an
// error (possibly among other results).
func errorMappers(c *chk.Ctx) []*ssa.Function {
	var out []*ssa.Function
	for _, f := range c.P.Funcs {
		if !c.P.InRepo[f] || len(f.Blocks) == 0 || f.Synthetic != "" {
			continue
		}
		res := f.Signature.Results()
		if res.Len() == 0 || res.At(res.Len()-1).Type().String() != "error" {
			continue
		}
		for _, p := range f.Params {
			if p.Type().String() == "error" {
				out = append(out, f)
				break
			}
		}
	}
	return out
}

// ruleErrorMappersKeepFailure (C16): a helper through which the handler
// package passes a decoding error on its way out never turns a failure into
// success: it returns nil only where its error argument is known to be nil.
func ruleErrorMappersKeepFailure(c *chk.Ctx, pkg *ssa.Package, rule string) {
	for _, f := range errorMappers(c) {
		if !inPkg(c, f, pkg) {
			continue
		}
		var errPar *ssa.Parameter
		for _, p := range f.Params {
			if p.Type().String() == "error" {
				errPar = p
			}
		}
		last := f.Signature.Results().Len() - 1
		bad := ""
		for _, r := range ir.Returns(f) {
			if !ir.IsNilConst(ir.ReturnResult(r, last)) {
				continue
			}
			same := func(v ssa.Value) bool { return v == ssa.Value(errPar) }
			proved := false
			for _, cs := range ir.CondAltsAt(r.Block()) {
				if ir.ProvesNil(cs, same) {
					proved = true
				} else {
					proved = false
					break
				}
			}
			if !proved {
				bad = c.P.Pos(r.Pos())
			}
		}
		c.Check(bad == "", rule, f, "an error handed in is not turned into success", f.Pos(), "nil is returned only where the error argument is nil", "returns nil at "+bad+" although the error it was given may be non-nil: a failed decode would be reported as success and the function called with partly decoded arguments")
	}
}

// ruleDecoderConfiguration (C16): the handler package decodes parameters with
// encoding/json's default rules plus, where strictness is asked for,
// DisallowUnknownFields — no other decoder option (UseNumber would deliver
// json.Number instead of float64 into interface-typed arguments).
func ruleDecoderConfiguration(c *chk.Ctx) {
	allowed := map[string]bool{"Decode": true, "DisallowUnknownFields": true, "More": true, "Token": true, "Buffered": true, "InputOffset": true}
	n := 0
	for _, f := range pkgFuncs(c, c.M.HandlerPkg) {
		ir.Calls(f, func(ci ssa.CallInstruction) {
			callee := ci.Common().StaticCallee()
			if callee == nil || callee.Signature.Recv() == nil || callee.Signature.Recv().Type().String() != "*encoding/json.Decoder" {
				return
			}
			n++
			c.Check(allowed[callee.Name()], "TABLE.decoder", f, "decoder option "+callee.Name(), ci.Pos(), "a json.Decoder is used with the default decoding rules (plus DisallowUnknownFields)", "the parameter decoder is configured with "+callee.Name()+": arguments would no longer be what encoding/json yields by default for the declared types")
		})
	}
	c.Floor("TABLE.decoder", 2, "json.Decoder method calls in the handler package (confirmed by hand: ≥ 4)")
}

// ruleIsErrClosingTable (C08, C20): channel.IsErrClosing recognises a closed
// channel or listener through errors.Is against both sentinels (its own
// ErrClosed and net.ErrClosed), so that wrapped errors count, and never by
// identity comparison with a sentinel.
func ruleIsErrClosingTable(c *chk.Ctx) {
	f := c.M.Func(c.M.ChanPkg, "IsErrClosing")
	if f == nil {
		c.Undecided("TABLE.closing", nil, "IsErrClosing", 0, "not found")
		return
	}
	want := map[string]bool{"ErrClosed": false, "net.ErrClosed": false}
	identity := ""
	for _, g := range c.P.Ext(f) {
		ir.Instrs(g, func(ins ssa.Instruction) {
			switch x := ins.(type) {
			case *ssa.Call:
				if ir.IsCallTo(&x.Call, "errors.Is") && len(x.Call.Args) == 2 {
					if gl := globalLoad(x.Call.Args[1]); gl != nil {
						name := gl.Name()
						if gl.Pkg != nil && gl.Pkg.Pkg.Path() == "net" {
							name = "net." + name
						} else if gl.Pkg != c.M.ChanPkg {
							return
						}
						if _, ok := want[name]; ok && c.P.Canon(x.Call.Args[0]) == ssa.Value(f.Params[0]) {
							want[name] = true
						}
					}
				}
			case *ssa.BinOp:
				if x.Op == token.EQL || x.Op == token.NEQ {
					for _, side := range []ssa.Value{x.X, x.Y} {
						if gl := globalLoad(side); gl != nil && gl.Type().String() == "*error" {
							identity = gl.Name() + " at " + c.P.Pos(x.Pos())
						}
					}
				}
			}
		})
	}
	// or a loop over a local table of the sentinels: `for _, e := range [...]error{ErrClosed,
	// net.ErrClosed} { if errors.Is(err, e) { return true } }; return false`
	tableForm := false
	{
		var tab *ssa.Alloc
		var isCall *ssa.Call
		ir.Instrs(f, func(ins ssa.Instruction) {
			call, ok := ins.(*ssa.Call)
			if !ok || !ir.IsCallTo(&call.Call, "errors.Is") || len(call.Call.Args) != 2 || c.P.Canon(call.Call.Args[0]) != ssa.Value(f.Params[0]) {
				return
			}
			var base ssa.Value
			if u, isU := call.Call.Args[1].(*ssa.UnOp); isU && u.Op == token.MUL {
				if ia, isIA := u.X.(*ssa.IndexAddr); isIA {
					base = ia.X
				}
			}
			if ix, isIx := call.Call.Args[1].(*ssa.Index); isIx {
				// (ranging over an array value: the array was loaded from its local first)
				if u, isU := ix.X.(*ssa.UnOp); isU && u.Op == token.MUL {
					base = u.X
				}
			}
			if al, isAl := base.(*ssa.Alloc); isAl {
				if at, isArr := al.Type().(*types.Pointer).Elem().Underlying().(*types.Array); isArr && at.Elem().String() == "error" {
					tab, isCall = al, call
				}
			}
		})
		if tab != nil {
			found := map[string]bool{}
			okStores := true
			for _, ref := range *tab.Referrers() {
				ia, isIA := ref.(*ssa.IndexAddr)
				if !isIA {
					continue
				}
				for _, r2 := range *ia.Referrers() {
					st, isSt := r2.(*ssa.Store)
					if !isSt {
						continue
					}
					gl := globalLoad(st.Val)
					if gl == nil {
						okStores = false
						continue
					}
					name := gl.Name()
					if gl.Pkg != nil && gl.Pkg.Pkg.Path() == "net" {
						name = "net." + name
					}
					found[name] = true
				}
			}
			// every `return true` is on the true edge of that errors.Is; every other return is false
			okRets := true
			for _, r := range ir.Returns(f) {
				k, isK := ir.ReturnResult(r, 0).(*ssa.Const)
				if !isK || k.Value == nil {
					okRets = false
					continue
				}
				if k.Value.String() != "true" {
					continue
				}
				onIs := false
				for _, cd := range ir.CondsAt(r.Block()) {
					if cd.V == ssa.Value(isCall) && cd.Truth {
						onIs = true
					}
				}
				if !onIs {
					okRets = false
				}
			}
			if okStores && okRets && len(found) == 2 && found["ErrClosed"] && found["net.ErrClosed"] && ir.InCycle(isCall.Block()) {
				tableForm = true
				for k := range want {
					want[k] = true
				}
			}
		}
	}
	var missing []string
	for k, ok := range want {
		if !ok {
			missing = append(missing, k)
		}
	}
	sort.Strings(missing)
	c.Check(len(missing) == 0, "TABLE.closing", f, "closed errors recognised through errors.Is", f.Pos(), "errors.Is(err, ErrClosed) and errors.Is(err, net.ErrClosed) are both consulted", "IsErrClosing does not consult errors.Is for "+strings.Join(missing, ", ")+": an error wrapping that sentinel is not recognised as a closed channel/listener (Loop would return it instead of nil; the server would not report Closed)")
	c.Check(identity == "", "TABLE.closing", f, "no identity comparison with a sentinel", f.Pos(), "no == / != against an error sentinel", "IsErrClosing compares with "+identity+" by identity: wrapped errors are not recognised")
	// the decision itself: true exactly for err != nil ∧ (Is(ErrClosed) ∨ Is(net.ErrClosed)),
	// evaluated over every consistent assignment of the three tests
	atomOf := func(v ssa.Value) (string, bool, bool) {
		if call, ok := v.(*ssa.Call); ok && ir.IsCallTo(&call.Call, "errors.Is") && len(call.Call.Args) == 2 {
			if gl := globalLoad(call.Call.Args[1]); gl != nil {
				if gl.Pkg != nil && gl.Pkg.Pkg.Path() == "net" {
					return "net." + gl.Name(), false, true
				}
				return gl.Name(), false, true
			}
		}
		if x, eq, ok := ir.NilCompare(v); ok && (x == ssa.Value(f.Params[0]) || c.P.Canon(x) == ssa.Value(f.Params[0])) {
			return "nonnil", eq, true
		}
		return "", false, false
	}
	if tableForm && identity == "" {
		c.Pass("TABLE.closing", f, "decision table", f.Pos(), "true exactly where errors.Is matches an entry of the constant table {ErrClosed, net.ErrClosed}, false otherwise")
	} else if len(missing) == 0 && identity == "" {
		bad := ""
		for _, nn := range []bool{false, true} {
			for _, a := range []bool{false, true} {
				for _, b := range []bool{false, true} {
					if !nn && (a || b) {
						continue // errors.Is(nil, x) is false
					}
					got, ok := c.P.EvalBool(f, atomOf, map[string]bool{"nonnil": nn, "ErrClosed": a, "net.ErrClosed": b})
					if !ok {
						bad = "cannot evaluate the function's decision"
					} else if got != (nn && (a || b)) {
						bad = fmt.Sprintf("for err≠nil=%v, Is(ErrClosed)=%v, Is(net.ErrClosed)=%v the result is %v", nn, a, b, got)
					}
				}
			}
		}
		c.Check(bad == "", "TABLE.closing", f, "decision table", f.Pos(), "true exactly for err ≠ nil ∧ (Is(ErrClosed) ∨ Is(net.ErrClosed))", "IsErrClosing's decision is not err ≠ nil ∧ (Is(ErrClosed) ∨ Is(net.ErrClosed)): "+bad)
	}
}

// ruleRequestPredicateTable (C17, C09): the predicate that tells requests and
// notifications from replies is exactly "method non-empty ∧ no error member ∧
// no result member": it decides whether an inbound message is dispatched to a
// handler under its exact method name or matched against pending callbacks, so
// no method-name string other than the empty one may fall on the reply side.
func ruleRequestPredicateTable(c *chk.Ctx) {
	n := 0
	for _, f := range pkgFuncs(c, c.M.Pkg) {
		if !isMsgRequestPred(c, f) {
			continue
		}
		n++
		atomOf := msgFieldAtom(c)
		bad := ""
		for _, m := range []bool{false, true} {
			for _, e := range []bool{false, true} {
				for _, r := range []bool{false, true} {
					got, ok := c.P.EvalBool(f, atomOf, map[string]bool{"M": m, "E": e, "R": r})
					if !ok {
						bad = "the decision involves something other than emptiness of the method and presence of the error/result members"
					} else if got != (m && !e && !r) {
						bad = fmt.Sprintf("for method≠\"\"=%v, error present=%v, result present=%v the result is %v", m, e, r, got)
					}
				}
			}
		}
		c.Check(bad == "", "TABLE.request", f, "request ⇔ method ≠ \"\" ∧ no error ∧ no result", f.Pos(), "the predicate's decision table is exactly that", "the request/notification predicate is not exactly 'method non-empty, no error, no result': "+bad+" — some method-name strings would be treated as replies and never dispatched")
	}
	if n == 0 {
		c.Undecided("TABLE.request", nil, "request predicate", 0, "no jmessage predicate reading method, error and result found")
	}
}

// msgFieldAtom: the atoms of the message predicates: M (method empty), E and R
// (error / result member absent), each possibly negated.
func msgFieldAtom(c *chk.Ctx) func(v ssa.Value) (string, bool, bool) {
	return func(v ssa.Value) (string, bool, bool) {
		{
			cd := ir.Cond{V: v, Truth: true}
			if s, ok := ir.NonEmptyLen(cd); ok && chk.LoadsField(s, c.M.JM) {
				return "M", false, true
			}
			if x, y, op, ok := ir.Rel(cd); ok && (op == token.EQL || op == token.NEQ) {
				for _, p := range [][2]ssa.Value{{x, y}, {y, x}} {
					if s, isS := constString(p[1]); isS && s == "" && chk.LoadsField(p[0], c.M.JM) {
						return "M", op == token.EQL, true
					}
				}
			}
			if x, eq, ok := ir.NilCompare(v); ok {
				switch {
				case chk.LoadsField(x, c.M.JE):
					return "E", eq, true
				case chk.LoadsField(x, c.M.JR):
					return "R", eq, true
				}
			}
			if s, ok := ir.NonEmptyLen(cd); ok && chk.LoadsField(s, c.M.JR) {
				return "R", false, true
			}
			return "", false, false
		}
	}
}

// ruleParsedRecordNotDiscarded (C08, C12): once the server's reader has
// decided to parse what Recv returned (a record, or a final record delivered
// together with io.EOF), no feasible path leads from the parse to the
// receive-failure stop: the record is examined and queued first, and the end
// of input is acted on at the next Recv. Paths are enumerated with phi values
// taken from the edge travelled and nil tests evaluated against what the path
// established.
func ruleParsedRecordNotDiscarded(c *chk.Ctx) {
	stop := stopFunc(c, "server")
	for _, s := range chanSites(c, "Recv") {
		if !(len(s.owners) == 1 && s.owners["server"] && !s.other) {
			continue
		}
		f := s.fn
		recv, _ := s.instr.(*ssa.Call)
		var parse ssa.CallInstruction
		ir.Calls(f, func(ci ssa.CallInstruction) {
			if g := ci.Common().StaticCallee(); g != nil && isListParser(c, g) {
				parse = ci
			}
		})
		if parse == nil || recv == nil || stop == nil {
			c.Undecided("PAIR.parsed", f, "parsed record reaches the queue", f.Pos(), "reader, parser call or stop function not found")
			return
		}
		bad := ""
		okWalk := ir.WalkNilPaths(recv.Block(), func(path []*ssa.BasicBlock, resolve func(ssa.Value) ssa.Value) bool {
			b := path[len(path)-1]
			parsed := false
			for _, p := range path {
				if p == parse.Block() {
					parsed = true
				}
			}
			if !parsed {
				return true
			}
			for _, ins := range b.Instrs {
				ci, isCall := ins.(ssa.CallInstruction)
				if !isCall || ci.Common().StaticCallee() != stop {
					continue
				}
				if b == parse.Block() {
					continue
				}
				args := ci.Common().Args
				cause := resolve(args[len(args)-1])
				if k, isK := cause.(*ssa.Const); isK && k.IsNil() {
					continue
				}
				if ir.IsExtractOf(cause, recv, 1) || ir.IsExtractOf(ir.NormCell(cause), recv, 1) {
					bad = c.P.Pos(ci.Pos())
					return false
				}
			}
			return true
		})
		if !okWalk {
			c.Undecided("PAIR.parsed", f, "parsed record reaches the queue", parse.Pos(), "too many paths through the reader")
			return
		}
		c.Check(bad == "", "PAIR.parsed", f, "parsed record reaches the queue", parse.Pos(), "no feasible path from the parse leads to the stop with Recv's error", "after parsing a record the reader can still take the receive-failure exit (stop at "+bad+"): a final record delivered together with io.EOF is parsed and then thrown away, and its notifications never reach their handlers")
		return
	}
}

// rulePendingTablesNeverReplaced (C08, C09): the tables of pending responses
// (the server's callbacks, the client's calls) are assigned only when their
// owner is constructed. Entries leave a table only through look-up-and-remove,
// whose remover must complete the entry (TOKEN.take); replacing the table of a
// live owner would orphan every pending entry: its waiter finds nothing to
// complete and the caller blocks for ever.
func rulePendingTablesNeverReplaced(c *chk.Ctx, fields ...*types.Var) {
	for _, fv := range fields {
		if fv == nil {
			continue
		}
		n := 0
		for _, st := range c.P.FieldStores(fv) {
			n++
			fa, _ := st.Addr.(*ssa.FieldAddr)
			fresh := false
			if fa != nil {
				fresh = freshOwner(c, fa.X)
			}
			c.Check(fresh, "WHO.tables", st.Parent(), "table "+fv.Name()+" assigned only at construction", st.Pos(), "the table is stored into a freshly allocated owner", "the table of pending responses "+fv.Name()+" is replaced on a live owner: entries still pending are orphaned — their waiters find no entry to complete and their callers never return")
		}
		if n == 0 {
			c.Undecided("WHO.tables", nil, "table "+fv.Name(), 0, "no assignment of the table found")
		}
	}
}

// ruleMemberLoopOrderIndependent (C13): the member parser visits the members
// of a message by ranging over a map, in no particular order. No decision
// inside that loop may therefore depend on a member field that another turn of
// the loop fills in: a branch in the loop that reads a message field (other
// than the first-error accumulator) which the loop writes at a place that does
// not dominate the branch sees "not yet" or "already" depending on the order —
// the same message would be accepted on one parse and refused on the next.
func ruleMemberLoopOrderIndependent(c *chk.Ctx) {
	n := 0
	for _, f := range pkgFuncs(c, c.M.Pkg) {
		if ir.RecvNamed(f) != c.M.Jmessage {
			continue
		}
		ir.Instrs(f, func(ins ssa.Instruction) {
			rg, ok := ins.(*ssa.Range)
			if !ok {
				return
			}
			if _, isMap := rg.X.Type().Underlying().(*types.Map); !isMap {
				return
			}
			var hdr *ssa.BasicBlock
			for _, r := range *rg.Referrers() {
				if nx, isNext := r.(*ssa.Next); isNext {
					hdr = nx.Block()
				}
			}
			if hdr == nil {
				return
			}
			n++
			in := ir.LoopBlocks(hdr)
			// writes of message fields inside the loop
			writes := map[*types.Var][]ssa.Instruction{}
			for b := range in {
				for _, i2 := range b.Instrs {
					switch x := i2.(type) {
					case *ssa.Store:
						if fa, isFA := x.Addr.(*ssa.FieldAddr); isFA && ir.FieldOwner(fa) == c.M.Jmessage {
							writes[ir.FieldVar(fa)] = append(writes[ir.FieldVar(fa)], x)
						}
					case ssa.CallInstruction:
						for _, a := range x.Common().Args {
							if mi, isMI := a.(*ssa.MakeInterface); isMI {
								a = mi.X
							}
							if fa, isFA := a.(*ssa.FieldAddr); isFA && ir.FieldOwner(fa) == c.M.Jmessage {
								writes[ir.FieldVar(fa)] = append(writes[ir.FieldVar(fa)], x)
							}
						}
					}
				}
			}
			bad := ""
			for b := range in {
				iff, isIf := b.Instrs[len(b.Instrs)-1].(*ssa.If)
				if !isIf {
					continue
				}
				var reads []*types.Var
				var scan func(v ssa.Value, depth int)
				scan = func(v ssa.Value, depth int) {
					if depth > 4 {
						return
					}
					switch x := v.(type) {
					case *ssa.BinOp:
						scan(x.X, depth+1)
						scan(x.Y, depth+1)
					case *ssa.UnOp:
						if fa, isFA := x.X.(*ssa.FieldAddr); isFA && x.Op == token.MUL && ir.FieldOwner(fa) == c.M.Jmessage {
							reads = append(reads, ir.FieldVar(fa))
						} else {
							scan(x.X, depth+1)
						}
					case *ssa.Call:
						if x.Call.StaticCallee() == nil && !x.Call.IsInvoke() {
							if bi, isB := x.Call.Value.(*ssa.Builtin); isB && bi.Name() == "len" {
								scan(x.Call.Args[0], depth+1)
							}
						}
					}
				}
				scan(iff.Cond, 0)
				for _, fv := range reads {
					if fv == c.M.JErr {
						continue
					}
					for _, w := range writes[fv] {
						if !ir.InstrDominates(w, iff) {
							bad = "field " + fv.Name() + " read at " + c.P.Pos(iff.Cond.Pos()) + ", written at " + c.P.Pos(w.Pos())
						}
					}
				}
			}
			c.Check(bad == "", "PROV.order", f, "decisions in the member loop do not depend on other members", rg.Pos(), "no branch in the loop over the members reads a field another turn of the loop writes", "a decision inside the loop over a message's members depends on another member ("+bad+"): the members are visited in map order, so the same message is judged differently from one parse to the next")
		})
	}
	if n == 0 {
		c.Undecided("PROV.order", nil, "member loop", 0, "no range over a map found in the message parser")
	}
}

// ruleBridgeParsesWholeBody (C18): the bridge gives ParseRequests the whole
// request body — what io.ReadAll (or a bytes.Buffer filled from the body)
// returned — so that a body that is not one valid JSON value is refused as a
// whole. A stream decoder stops after the first value and would let
// `{...} garbage` through.
func ruleBridgeParsesWholeBody(c *chk.Ctx) {
	n := 0
	for _, f := range pkgFuncs(c, c.M.JhttpPkg) {
		ir.Calls(f, func(ci ssa.CallInstruction) {
			callee := ci.Common().StaticCallee()
			if callee == nil || ir.BaseName(callee) != "ParseRequests" || callee.Pkg != c.M.Pkg {
				return
			}
			n++
			var bad []string
			for _, src := range c.P.SourcesStop(ci.Common().Args[0], func(v ssa.Value) bool {
				_, isExt := v.(*ssa.Extract)
				_, isCall := v.(*ssa.Call)
				return isExt || isCall
			}) {
				ok := false
				switch x := src.(type) {
				case *ssa.Extract:
					if call, isCall := x.Tuple.(*ssa.Call); isCall && x.Index == 0 && (ir.IsCallTo(&call.Call, "io.ReadAll") || ir.IsCallTo(&call.Call, "io/ioutil.ReadAll")) {
						ok = true
					}
				case *ssa.Call:
					if ir.IsCallTo(&x.Call, "(*bytes.Buffer).Bytes") {
						ok = true
					}
				}
				if !ok {
					bad = append(bad, fmt.Sprintf("%s (%T) at %s", src.Name(), src, c.P.Pos(src.Pos())))
				}
			}
			c.Check(len(bad) == 0, "PROV.body", f, "the whole body is parsed", ci.Pos(), "ParseRequests receives what io.ReadAll returned for the body", "ParseRequests is given something other than the complete body ("+strings.Join(bad, "; ")+"): bytes after the first JSON value would be ignored, so an invalid body could run handlers")
		})
	}
	if n == 0 {
		c.Undecided("PROV.body", nil, "bridge body", 0, "no call of ParseRequests in the jhttp package")
	}
}

// ruleCountdownAgrees (C01): the counter that decides "this is the last
// runnable task, run it inline and stop" is produced by the counting function
// (which counts the tasks with err == nil) and must be consumed the same way:
// every decrement of it in the task loop sits on the err == nil edge of the
// task at hand. A decrement that also happens for failed tasks reaches zero
// early, and the runnable tasks after that point are never invoked.
func ruleCountdownAgrees(c *chk.Ctx, d *dispatchModel) {
	loopFn := taskLoopFunc(c, d)
	if loopFn == nil || d.numToDo == nil {
		c.Undecided("PAIR.countdown", nil, "countdown", 0, "task loop or counting function not resolved")
		return
	}
	fromCount := func(v ssa.Value) bool {
		isCount := func(x ssa.Value) bool {
			if e, ok := x.(*ssa.Extract); ok {
				x = e.Tuple
			}
			call, ok := x.(*ssa.Call)
			return ok && call.Call.StaticCallee() == d.numToDo
		}
		for _, src := range c.P.SourcesStop(v, isCount) {
			switch x := src.(type) {
			case *ssa.Extract:
				if call, ok := x.Tuple.(*ssa.Call); ok && call.Call.StaticCallee() == d.numToDo && x.Index == 0 {
					return true
				}
			case *ssa.Call:
				if x.Call.StaticCallee() == d.numToDo {
					return true
				}
			}
		}
		return false
	}
	n := 0
	c.P.ExtInstrs(loopFn, func(ins ssa.Instruction) {
		b, ok := ins.(*ssa.BinOp)
		if !ok || b.Op != token.SUB {
			return
		}
		if k, isC := ir.ConstInt(b.Y); !isC || k != 1 {
			return
		}
		if !ir.InCycle(b.Block()) && b.Parent() == loopFn {
			return
		}
		if !fromCount(b.X) {
			return
		}
		n++
		guarded := c.P.AllContexts(b, nil, func(cs []ir.Cond) bool {
			for _, cd := range cs {
				if known, isNil := isErrNilOfTask(c, cd, nil); known && isNil {
					return true
				}
			}
			return false
		})
		c.Check(guarded, "PAIR.countdown", b.Parent(), "countdown decremented for runnable tasks only", b.Pos(), "the decrement sits on the err == nil edge of the task", "the count of runnable tasks is decremented also for a task that already failed: it reaches zero before the last runnable task, the loop ends there, and the runnable tasks that follow are never invoked (their replies carry neither result nor error)")
	})
	if n == 0 {
		// no countdown at all (e.g. every task gets a goroutine): nothing to agree on
		c.Pass("PAIR.countdown", loopFn, "countdown decremented for runnable tasks only", loopFn.Pos(), "the task loop has no countdown derived from the counting function")
	}
}

// ruleAccessorDefaults: an option accessor that supplies a default — a method
// without parameters on a pointer to an options struct, some return of which
// yields something other than the option field — supplies it whenever the
// option is unset: a return that yields a nil-able option field (interface,
// function, pointer, map, slice, channel) is reached only where that field was
// found non-nil. Code behind the accessor relies on never seeing nil (for the
// jhttp channel a nil client even means "closed").
func ruleAccessorDefaults(c *chk.Ctx, rule string, pkgs ...*ssa.Package) {
	n := 0
	for _, pkg := range pkgs {
		for _, f := range pkgFuncs(c, pkg) {
			if f.Parent() != nil || f.Signature.Recv() == nil || f.Signature.Params().Len() != 0 || f.Signature.Results().Len() != 1 || len(f.Blocks) == 0 {
				continue
			}
			pt, ok := f.Signature.Recv().Type().(*types.Pointer)
			if !ok {
				continue
			}
			named, ok := pt.Elem().(*types.Named)
			if !ok || !strings.HasSuffix(named.Obj().Name(), "Options") {
				continue
			}
			switch f.Signature.Results().At(0).Type().Underlying().(type) {
			case *types.Interface, *types.Signature, *types.Pointer, *types.Map, *types.Slice, *types.Chan:
			default:
				continue
			}
			type fieldRet struct {
				r     *ssa.Return
				fa    *ssa.FieldAddr
				v     ssa.Value
				alts  [][]ir.Cond // for a value selected by a phi: the outcomes along its edges
				chain []ssa.Value // the phis it passed through
			}
			var fieldRets []fieldRet
			hasDefault := false
			var expand func(r *ssa.Return, v ssa.Value, chain []ssa.Value, alts [][]ir.Cond, depth int)
			expand = func(r *ssa.Return, v ssa.Value, chain []ssa.Value, alts [][]ir.Cond, depth int) {
				if phi, isPhi := v.(*ssa.Phi); isPhi && depth < 4 {
					for i, e := range phi.Edges {
						pred := phi.Block().Preds[i]
						var ealts [][]ir.Cond
						for _, alt := range ir.CondAltsAt(pred) {
							ealts = append(ealts, append(append([]ir.Cond{}, alt...), ir.EdgeConds(pred, phi.Block())...))
						}
						if len(ealts) == 0 {
							ealts = [][]ir.Cond{ir.EdgeConds(pred, phi.Block())}
						}
						// outcomes established further out (about the phi itself) hold for this edge too
						var merged [][]ir.Cond
						if alts == nil {
							merged = ealts
						} else {
							for _, a := range alts {
								for _, b := range ealts {
									merged = append(merged, append(append([]ir.Cond{}, a...), b...))
								}
							}
						}
						expand(r, e, append(append([]ssa.Value{}, chain...), phi), merged, depth+1)
					}
					return
				}
				if u, isU := v.(*ssa.UnOp); isU && u.Op == token.MUL {
					if fa, isFA := u.X.(*ssa.FieldAddr); isFA && ir.FieldOwner(fa) == named && fa.X == ssa.Value(f.Params[0]) {
						fieldRets = append(fieldRets, fieldRet{r: r, fa: fa, v: v, alts: alts, chain: chain})
						return
					}
				}
				if !ir.IsNilConst(v) {
					hasDefault = true
				}
			}
			for _, r := range ir.Returns(f) {
				v := ir.ReturnResult(r, 0)
				var base [][]ir.Cond
				if _, isPhi := v.(*ssa.Phi); isPhi {
					base = ir.CondAltsAt(r.Block())
				}
				expand(r, v, nil, base, 0)
			}
			if !hasDefault || len(fieldRets) == 0 {
				continue
			}
			n++
			for _, fr := range fieldRets {
				fv := ir.FieldVar(fr.fa)
				same := func(v ssa.Value) bool {
					if v == fr.v {
						return true
					}
					for _, ph := range fr.chain {
						if v == ph {
							return true
						}
					}
					u, isU := v.(*ssa.UnOp)
					if !isU || u.Op != token.MUL {
						return false
					}
					fa, isFA := u.X.(*ssa.FieldAddr)
					return isFA && ir.FieldVar(fa) == fv && fa.X == fr.fa.X
				}
				// (a value returned directly is judged where it is returned: the test may
				// follow the load — `if v := s.F; v != nil { return v }`)
				blk := fr.r.Block()
				proved := true
				alts := ir.CondAltsAt(blk)
				if fr.alts != nil {
					alts = fr.alts
				}
				if len(alts) == 0 {
					proved = false
				}
				for _, cs := range alts {
					nonNil := false
					for _, cd := range cs {
						if x, eq, isCmp := ir.NilCompare(cd.V); isCmp && same(x) && eq != cd.Truth {
							nonNil = true
						}
					}
					if !nonNil {
						proved = false
					}
				}
				c.Check(proved, rule, f, "default supplied whenever "+fv.Name()+" is unset", fr.r.Pos(), "the option field is returned only where it was found non-nil", "the accessor can return the unset (nil) option "+fv.Name()+" although it has a default for it: code behind the accessor assumes a usable value (a nil HTTP client marks the jhttp channel as closed from the start)")
			}
		}
	}
	if n == 0 {
		c.Undecided(rule, nil, "option accessors", 0, "no option accessor with a default found")
	}
}

// ruleQueryStringsWhole (C19): a string that ParseQuery stores as a parameter
// value is either the query value itself or what encoding/json decoded from
// it — never a piece cut out of it or something assembled from pieces. A
// double-quoted value must be a valid JSON string to be accepted, and only the
// JSON decoder decides that; taking the text between the quotes accepts
// values that are not JSON strings (an unescaped quote, a raw control
// character) and delivers them undecoded.
func ruleQueryStringsWhole(c *chk.Ctx) {
	f := c.M.Func(c.M.JhttpPkg, "ParseQuery")
	if f == nil {
		c.Undecided("PROV.params", nil, "ParseQuery", 0, "not found")
		return
	}
	n := 0
	c.P.ExtInstrs(f, func(ins ssa.Instruction) {
		mu, ok := ins.(*ssa.MapUpdate)
		if !ok {
			return
		}
		n++
		var bad []string
		stop := func(v ssa.Value) bool {
			switch x := v.(type) {
			case *ssa.Slice:
				return true
			case *ssa.BinOp:
				return x.Op == token.ADD
			}
			return false
		}
		for _, src := range c.P.SourcesStop(mu.Value, stop) {
			b, isBasic := src.Type().Underlying().(*types.Basic)
			if !isBasic || b.Info()&types.IsString == 0 {
				continue
			}
			switch src.(type) {
			case *ssa.Slice:
				bad = append(bad, "a substring taken at "+c.P.Pos(src.Pos()))
			case *ssa.BinOp:
				bad = append(bad, "a concatenation at "+c.P.Pos(src.Pos()))
			}
		}
		c.Check(len(bad) == 0, "PROV.params", f, "string parameters are whole values or JSON-decoded", mu.Pos(), "no string stored is a substring or concatenation", "a string parameter is "+strings.Join(bad, ", ")+": a double-quoted query value would be delivered without passing the JSON decoder, so values that are not valid JSON strings are accepted instead of being refused with 400")
	})
	if n == 0 {
		c.Undecided("PROV.params", f, "string parameters", f.Pos(), "no parameter store found in ParseQuery")
	}
}

// ruleReplyKeyWhole (C04, C09): the key under which an inbound reply is
// matched against the table of pending requests is the reply's id text as a
// whole (after null-normalisation) — never a part of it or a respelling: the
// requester registered the exact text it sent, and "7" and 7 are different
// ids. A key cut out of the id text lets a reply with a different id consume
// another request's slot.
func ruleReplyKeyWhole(c *chk.Ctx, table *types.Var, what string) {
	n := 0
	for _, vl := range tableLookups(c, table) {
		f := vl.fn
		func() {
			lk := struct {
				Index ssa.Value
				pos   token.Pos
			}{vl.key, vl.at.Pos()}
			stop := func(v ssa.Value) bool {
				switch x := v.(type) {
				case *ssa.Slice:
					b, isB := x.Type().Underlying().(*types.Basic)
					return isB && b.Info()&types.IsString != 0
				case *ssa.BinOp:
					return x.Op == token.ADD
				case *ssa.UnOp:
					if fa, isFA := x.X.(*ssa.FieldAddr); isFA && ir.FieldVar(fa) == c.M.JID {
						return true
					}
				}
				return false
			}
			inbound := false
			var bad []string
			for _, src := range c.P.SourcesStop(lk.Index, stop) {
				switch x := src.(type) {
				case *ssa.Slice:
					bad = append(bad, "a substring taken at "+c.P.Pos(x.Pos()))
				case *ssa.BinOp:
					bad = append(bad, "a concatenation at "+c.P.Pos(x.Pos()))
				case *ssa.UnOp:
					inbound = true
				}
			}
			if !inbound {
				return
			}
			n++
			c.Check(len(bad) == 0, "TOKEN.key", f, what+": reply matched by its whole id", lk.pos, "the look-up key is the message's id text as a whole", "the key used to match a reply is "+strings.Join(bad, ", ")+" rather than the id text itself: a reply bearing a different id (\"7\" for 7) would be taken for the pending request's reply")
		}()
	}
	if n == 0 {
		c.Undecided("TOKEN.key", nil, what+": reply key", 0, "no look-up of an inbound id found")
	}
}

// ruleHandedOffChannelNotClosed (C10): a wrapper that hands a channel to a
// Server (Start) or a Client (NewClient) gives up ownership: from then on the
// channel is closed by that server or client alone, once, under its lock. In
// the packages built on top of the root package, a Close of a channel value
// that the same function also hands off is allowed only on a path that never
// reaches the hand-off (the "no server will own this connection" path) — not
// after it, and not from a goroutine or deferred function.
func ruleHandedOffChannelNotClosed(c *chk.Ctx) {
	n := 0
	for _, pkg := range []*ssa.Package{c.M.ServerPkg, c.M.JhttpPkg} {
		for _, f := range pkgFuncs(c, pkg) {
			ir.Calls(f, func(ci ssa.CallInstruction) {
				callee := ci.Common().StaticCallee()
				if callee == nil || callee.Pkg != c.M.Pkg {
					return
				}
				var ch ssa.Value
				switch {
				case ir.BaseName(callee) == "Start" && ir.RecvNamed(callee) == c.M.Server && len(ci.Common().Args) == 2:
					ch = ci.Common().Args[1]
				case ir.BaseName(callee) == "NewClient" && len(ci.Common().Args) >= 1:
					ch = ci.Common().Args[0]
				default:
					return
				}
				n++
				origin := c.P.Canon(ch)
				sameChan := func(v ssa.Value) bool {
					if c.P.Canon(v) == origin {
						return true
					}
					for _, src := range c.P.SourcesStop(v, func(x ssa.Value) bool { return x == origin }) {
						if src == origin {
							return true
						}
					}
					return false
				}
				bad := ""
				for _, g := range c.P.Ext(f) {
					scope := []*ssa.Function{g}
					scope = append(scope, g.AnonFuncs...)
					for _, h := range scope {
						ir.Calls(h, func(cl ssa.CallInstruction) {
							cc := cl.Common()
							if !cc.IsInvoke() || cc.Method.Name() != "Close" || !sameChan(cc.Value) {
								return
							}
							if h != f {
								bad = c.P.Pos(cl.Pos()) + " (in " + ir.Name(h) + ")"
								return
							}
							if _, isCall := cl.(*ssa.Call); !isCall {
								bad = c.P.Pos(cl.Pos()) + " (deferred or go)"
								return
							}
							r1, _ := ir.Reaches(ci.(ssa.Instruction), func(i ssa.Instruction) bool { return i == cl.(ssa.Instruction) }, nil)
							r2, _ := ir.Reaches(cl.(ssa.Instruction), func(i ssa.Instruction) bool { return i == ci.(ssa.Instruction) }, nil)
							if r1 || r2 {
								bad = c.P.Pos(cl.Pos())
							}
						})
					}
				}
				c.Check(bad == "", "WHO.close", f, "a handed-off channel is closed by its new owner only", ci.Pos(), "no Close of the channel on a path with the hand-off", "the channel handed to "+callee.Name()+" is also closed by the wrapper at "+bad+": it would be closed twice, and the wrapper's Close runs without the owner's lock, so it can overlap a Send")
			})
		}
	}
	if n == 0 {
		c.Undecided("WHO.close", nil, "hand-off sites", 0, "no Start/NewClient hand-off found in the server and jhttp packages")
	}
}

// isNullStringNormaliser: g maps an id to its key text: the empty string on the
// true edge of a boolean predicate of the id (the null test), the id's own
// text — string(id), possibly of the null-normalised id — on the other edge.
func isNullStringNormaliser(c *chk.Ctx, g *ssa.Function) bool {
	if g == nil || !c.P.InRepo[g] || ir.Exported(g) || len(g.Params) != 1 || g.Signature.Results().Len() != 1 || g.Signature.Results().At(0).Type().String() != "string" {
		return false
	}
	prm := g.Params[0]
	predOn := func(cs []ir.Cond, truth bool) bool {
		for _, cd := range cs {
			call, ok := cd.V.(*ssa.Call)
			if !ok || cd.Truth != truth || len(call.Call.Args) != 1 || ir.NormCell(call.Call.Args[0]) != ssa.Value(prm) {
				continue
			}
			if h := call.Call.StaticCallee(); h != nil && c.P.InRepo[h] && h.Signature.Results().Len() == 1 && h.Signature.Results().At(0).Type().String() == "bool" {
				return true
			}
		}
		return false
	}
	empty, text := false, false
	for _, r := range ir.Returns(g) {
		v := ir.ReturnResult(r, 0)
		if k, isK := constString(v); isK {
			if k != "" || !predOn(ir.CondsAt(r.Block()), true) {
				return false
			}
			empty = true
			continue
		}
		cv, isCv := v.(*ssa.Convert)
		if !isCv {
			return false
		}
		src := ir.NormCell(cv.X)
		if call, isCall := src.(*ssa.Call); isCall && isNullNormaliser(c, call.Call.StaticCallee()) && ir.NormCell(call.Call.Args[0]) == ssa.Value(prm) {
			text = true
			continue
		}
		if src != ssa.Value(prm) || !predOn(ir.CondsAt(r.Block()), false) {
			return false
		}
		text = true
	}
	return empty && text
}
