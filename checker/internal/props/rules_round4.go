package props

import (
	"go/token"
	"go/types"
	"strings"

	"golang.org/x/tools/go/ssa"

	"jrpcvet/internal/chk"
	"jrpcvet/internal/facts"
	"jrpcvet/internal/ir"
)

// Rules written after the fourth round of independently seeded breakages.
// Each states a structural necessary condition of a clause of its property.

// ruleDeliveryLoopVisitsAll (C04, C05): the loop that hands the members of an
// inbound message to the function that completes pending requests has no
// early exit, so one malformed member cannot cost the replies that follow it.
func ruleDeliveryLoopVisitsAll(c *chk.Ctx) {
	n := 0
	seen := map[*ssa.BasicBlock]bool{}
	for _, s := range slotSends(c) {
		if s.owner != "client" {
			continue
		}
		for _, cs := range c.P.Callers(s.fn) {
			if !ir.InCycle(cs.Instr.Block()) {
				continue
			}
			hdr := loopHeaderOf(cs.Instr.Block())
			if hdr == nil || seen[hdr] {
				continue
			}
			seen[hdr] = true
			n++
			early := loopEarlyExits(hdr)
			where := ""
			if len(early) > 0 && len(early[0][0].Instrs) > 0 {
				where = c.P.Pos(early[0][0].Instrs[len(early[0][0].Instrs)-1].Pos())
			}
			c.Check(len(early) == 0, "PAIR.loop", cs.Caller, "every inbound member is delivered", cs.Instr.Pos(), "the loop over the members of an inbound message has no early exit: every member reaches the delivery function",
				"the loop that delivers the members of an inbound message can be left early (at "+where+"): the replies that follow in the same message would never complete their requests")
		}
	}
	if n == 0 {
		c.Undecided("PAIR.loop", nil, "client delivery loop", 0, "no loop calling the client's delivery function found")
	}
}

// ruleFirstWaiterReleases (C05): the waiter that receives a Response's message
// always releases the context observer: on the ok edge of the slot receive,
// every path reaches a call of the Response's cancel function.
func ruleFirstWaiterReleases(c *chk.Ctx) {
	n := 0
	for _, f := range pkgFuncs(c, c.M.Pkg) {
		ir.Instrs(f, func(ins ssa.Instruction) {
			u, ok := ins.(*ssa.UnOp)
			if !ok || u.Op != token.ARROW || !u.CommaOk || !chk.LoadsField(u.X, c.M.RCh) {
				return
			}
			n++
			isCancel := func(i ssa.Instruction) bool {
				ci, ok := i.(ssa.CallInstruction)
				return ok && chk.LoadsField(ci.Common().Value, c.M.RCancel)
			}
			goal := c.P.LiftGoal(isCancel, 0)
			okAll, found := true, false
			var at ssa.Instruction
			for _, r := range *u.Referrers() {
				e, ok := r.(*ssa.Extract)
				if !ok || e.Index != 1 {
					continue
				}
				for _, r2 := range *e.Referrers() {
					iff, ok := r2.(*ssa.If)
					if !ok {
						continue
					}
					found = true
					succ := iff.Block().Succs[0]
					if len(succ.Instrs) == 0 {
						okAll = false
						continue
					}
					if goal(succ.Instrs[0]) {
						continue
					}
					reach, where := ir.PathQuery{Goal: goal}.MustReach(succ.Instrs[0])
					if !reach {
						okAll, at = false, where
					}
				}
			}
			where := ""
			if at != nil {
				where = " (a path leaves at " + c.P.Pos(at.Pos()) + ")"
			}
			c.Check(found && okAll, "PAIR.release", f, "first waiter releases the observer", u.Pos(), "on the ok edge of the slot receive every path calls the Response's cancel function", "the waiter that settles a Response does not always call its cancel function"+where+": the request's context observer goroutine would outlive the request (and the client's Close)")
		})
	}
	if n == 0 {
		c.Undecided("PAIR.release", nil, "slot receiver", 0, "no comma-ok receive on a response slot found")
	}
}

// ruleNoLockBeforeHandler (C06): between obtaining a slot and calling the
// handler, the invoke function does not touch the server lock (which the
// delivery function holds across a channel Send): a slot holder never waits on
// a reply being written.
func ruleNoLockBeforeHandler(c *chk.Ctx, d *dispatchModel) {
	f := d.invoke
	var acq *ssa.Call
	ir.Instrs(f, func(ins ssa.Instruction) {
		if call, ok := ins.(*ssa.Call); ok && ir.IsCallTo(&call.Call, "(*golang.org/x/sync/semaphore.Weighted).Acquire") {
			acq = call
		}
	})
	hc, _ := d.handlerCall.(*ssa.Call)
	if acq == nil || hc == nil {
		return // reported by PAIR.sem
	}
	lock := ownerLock(c, "server")
	bad := ""
	for _, ins := range between(acq, hc) {
		if releases(c, ins, lock) {
			bad = c.P.Pos(ins.Pos())
		}
		if ci, ok := ins.(ssa.CallInstruction); ok {
			if op, lp, ok := facts.IsMutexOp(ci.Common()); ok && op == "lock" && lp == lock {
				bad = c.P.Pos(ins.Pos())
			}
		}
	}
	c.Check(bad == "", "GO.nowait", f, "no server lock between slot and handler", hc.Pos(), "between Acquire and the handler call nothing takes the server lock", "with a slot acquired, the invoke function takes the server lock (at "+bad+") before running the handler: while a reply is being written to a slow peer (the lock is held across Send) a slot holder executes nothing, so fewer handlers than the limit run although calls are waiting")
}

// ruleFreshCancelPerReservation (C07): the cancel function stored under a
// reserved id comes from a context.WithCancel executed for that reservation:
// no path leads from one reservation to the next without creating a new one.
func ruleFreshCancelPerReservation(c *chk.Ctx, d *dispatchModel) {
	var mu *ssa.MapUpdate
	ir.Instrs(d.setContext, func(ins ssa.Instruction) {
		if m, ok := ins.(*ssa.MapUpdate); ok && chk.LoadsField(m.Map, c.M.SUsed) {
			mu = m
		}
	})
	if mu == nil {
		return
	}
	isWC := func(v ssa.Value) bool {
		e, ok := v.(*ssa.Extract)
		if !ok || e.Index != 1 {
			return false
		}
		call, ok := e.Tuple.(*ssa.Call)
		return ok && ir.IsCallTo(&call.Call, "context.WithCancel", "context.WithTimeout", "context.WithDeadline")
	}
	var wcs []*ssa.Call
	okSrc := true
	for _, src := range c.P.SourcesStop(mu.Value, isWC) {
		if !isWC(src) {
			okSrc = false
			continue
		}
		wcs = append(wcs, src.(*ssa.Extract).Tuple.(*ssa.Call))
	}
	fresh := okSrc && len(wcs) == 1
	why := "the stored cancel function does not come from exactly one context.WithCancel call"
	if fresh {
		wc := wcs[0]
		// inside the function of the WithCancel call: from (the anchor of) a reservation, the next
		// reservation is not reachable without passing the WithCancel call again
		for _, a := range anchorsIn(c, mu, wc.Parent()) {
			if !ir.InstrDominates(wc, a) && a != ssa.Instruction(wc) {
				fresh, why = false, "the WithCancel call does not precede the reservation on every path"
			}
			again, _ := ir.Reaches(a, func(i ssa.Instruction) bool { return i == a }, func(i ssa.Instruction) bool { return i == ssa.Instruction(wc) })
			if again {
				fresh, why = false, "a second reservation can be made without creating a new cancellable context (the cancel function is shared)"
			}
		}
		if len(anchorsIn(c, mu, wc.Parent())) == 0 {
			fresh, why = false, "the reservation is not reached from the function that creates the cancellable context"
		}
		// and that function is itself entered once per reservation (not once per batch): its call
		// sites inside the check/assign region are where the per-task loop is
	}
	c.Check(fresh, "PROV.cancel", d.setContext, "each reservation gets its own cancel function", mu.Pos(), "the cancel function stored under an id is the result of a context.WithCancel executed for that very reservation", why+": cancelling one call by id would also cancel calls that were never named")
}

// ruleCancelExactID (C07): CancelRequest consults the in-flight table with
// exactly the id it was given.
func ruleCancelExactID(c *chk.Ctx) {
	n := 0
	for _, f := range pkgFuncs(c, c.M.Pkg) {
		ir.Instrs(f, func(ins ssa.Instruction) {
			lk, ok := ins.(*ssa.Lookup)
			if !ok || !chk.LoadsField(lk.X, c.M.SUsed) {
				return
			}
			// only lookups whose result is invoked (a cancellation), not the duplicate check
			invoked := false
			var vals []ssa.Value
			vals = append(vals, lk)
			for _, r := range *lk.Referrers() {
				if e, ok := r.(*ssa.Extract); ok && e.Index == 0 {
					vals = append(vals, e)
				}
			}
			for _, v := range vals {
				for _, r := range *v.Referrers() {
					if ci, ok := r.(ssa.CallInstruction); ok && ci.Common().Value == v {
						invoked = true
					}
				}
			}
			if !invoked {
				return
			}
			// reached from an exported entry point with an id argument?
			key := c.P.Canon(lk.Index)
			prm, isParam := key.(*ssa.Parameter)
			entry := ir.Root(f)
			if isParam {
				entry = prm.Parent()
			}
			if entry.Parent() != nil || !ir.Exported(entry) || ir.RecvNamed(entry) != c.M.Server {
				if !isParam {
					// a cancellation keyed by something computed: is it inside an exported method's region?
					for _, g := range pkgFuncs(c, c.M.Pkg) {
						if g.Parent() == nil && ir.Exported(g) && ir.RecvNamed(g) == c.M.Server && c.P.InExt(g, f) && len(c.P.Ext(g)) < 12 {
							n++
							c.Fail("PROV.cancel", g, "cancellation looks up exactly the given id", lk.Pos(), "the cancel entry point looks up a key other than the id it was given (a derived or re-quoted form): an unknown or finished id could cancel a different call that is in flight")
						}
					}
				}
				return
			}
			n++
			c.Pass("PROV.cancel", entry, "cancellation looks up exactly the given id", lk.Pos(), "the in-flight table is consulted with the method's own id argument, unmodified")
		})
	}
	if n == 0 {
		c.Undecided("PROV.cancel", nil, "cancel entry point", 0, "no exported Server method looks an id up in the in-flight table and invokes the entry")
	}
}

// ruleCallbackTakeCompletes (C08, C09): whoever removes an entry from the
// callback table completes it: on every path from the removal to the
// function's exit the Response's slot is written or its context cancelled.
// (The stop function cancels only the entries it still finds in the table.)
func ruleCallbackTakeCompletes(c *chk.Ctx) {
	n := 0
	for _, f := range pkgFuncs(c, c.M.Pkg) {
		ir.Instrs(f, func(ins ssa.Instruction) {
			del, ok := isDeleteOn(ins, c.M.SCall)
			if !ok {
				return
			}
			n++
			goal := func(i ssa.Instruction) bool {
				if s, ok := i.(*ssa.Send); ok && chk.LoadsField(s.Chan, c.M.RCh) {
					return true
				}
				ci, ok := i.(ssa.CallInstruction)
				return ok && chk.LoadsField(ci.Common().Value, c.M.RCancel)
			}
			// a completion that precedes the removal in the same critical section counts as well
			done := false
			ir.Instrs(f, func(i2 ssa.Instruction) {
				if goal(i2) && ir.InstrDominates(i2, del) {
					done = true
				}
			})
			var at ssa.Instruction
			if !done {
				done, at = ir.PathQuery{Goal: c.P.LiftGoal(goal, 0)}.MustReach(del)
			}
			where := ""
			if at != nil {
				where = " (a path leaves at " + c.P.Pos(at.Pos()) + ")"
			}
			c.Check(done, "TOKEN.take", f, "callback entry removed ⇒ completed", del.Pos(), "every path from the removal of a callback entry writes its slot or cancels its context", "a callback entry is removed from the table without its slot being written or its context cancelled"+where+": its watcher goroutine is no longer reachable by the stop function and would outlive the server")
		})
	}
	if n == 0 {
		c.Undecided("TOKEN.take", nil, "callback removal", 0, "no removal from the callback table found")
	}
}

// ruleStopAlwaysCloses (C10, C08): in the stop function the channel field is
// cleared only after Close was called: no stop cause skips the Close.
func ruleStopAlwaysCloses(c *chk.Ctx, owner string) {
	stop := stopFunc(c, owner)
	if stop == nil {
		return // reported elsewhere
	}
	var closeCall ssa.CallInstruction
	for _, s := range chanSites(c, "Close") {
		if s.owners[owner] {
			closeCall = s.instr
		}
	}
	n := 0
	c.P.ExtInstrs(stop, func(ins ssa.Instruction) {
		if !isStoreNilTo(ins, ownerCh(c, owner)) {
			return
		}
		n++
		c.Check(closeCall != nil && c.P.IDominates(closeCall, ins), "RUN.stopOnce", stop, owner+" channel cleared only after Close", ins.Pos(), "the store that clears the channel field is dominated by the Close call", "the stop function can clear the channel field on a path that did not call Close (a stop cause for which Close is skipped): the channel would never be closed, since later stops are no-ops")
	})
	if n == 0 {
		c.Undecided("RUN.stopOnce", stop, owner+" channel cleared", stop.Pos(), "the stop function does not clear the channel field")
	}
}

// ruleCallbackMarshalErrorReported (C14, C13): in the client's callback
// runner, when marshalling the handler's result fails the reply gets an error
// member on every path (it is never sent with neither result nor error).
func ruleCallbackMarshalErrorReported(c *chk.Ctx) {
	n := 0
	for _, f := range c.P.Funcs {
		if !inPkg(c, f, c.M.Pkg) {
			continue
		}
		// the function that stores json.Marshal's bytes into the result member of a message
		ir.Instrs(f, func(ins ssa.Instruction) {
			call, ok := ins.(*ssa.Call)
			if !ok || !ir.IsCallTo(&call.Call, "encoding/json.Marshal") {
				return
			}
			storesR := false
			for _, r := range *call.Referrers() {
				e, ok := r.(*ssa.Extract)
				if !ok || e.Index != 0 {
					continue
				}
				for _, r2 := range *e.Referrers() {
					if st, ok := r2.(*ssa.Store); ok && chk.IsField(st.Addr, c.M.JR) {
						storesR = true
					}
					if ct, ok := r2.(*ssa.ChangeType); ok {
						for _, r3 := range *ct.Referrers() {
							if st, ok := r3.(*ssa.Store); ok && chk.IsField(st.Addr, c.M.JR) {
								storesR = true
							}
						}
					}
				}
			}
			if !storesR {
				return
			}
			n++
			// the failing edge of this Marshal
			var isErrD func(v ssa.Value, depth int) bool
			isErrD = func(v ssa.Value, depth int) bool {
				v = ir.NormCell(v)
				if ir.IsExtractOf(v, call, 1) {
					return true
				}
				if phi, ok := v.(*ssa.Phi); ok && depth < 4 {
					for _, e := range phi.Edges {
						if isErrD(e, depth+1) {
							return true
						}
					}
				}
				return false
			}
			isErr := func(v ssa.Value) bool { return isErrD(v, 0) }
			var fail *ssa.BasicBlock
			ir.Instrs(f, func(i2 ssa.Instruction) {
				iff, ok := i2.(*ssa.If)
				if !ok {
					return
				}
				if hit, _ := ir.Reaches(call, func(i ssa.Instruction) bool { return i == ssa.Instruction(iff) }, nil); !hit {
					return
				}
				x, eq, ok := ir.NilCompare(iff.Cond)
				if !ok || !isErr(x) {
					return
				}
				if fail != nil {
					return // the first test after the call decides
				}
				if eq {
					fail = iff.Block().Succs[1]
				} else {
					fail = iff.Block().Succs[0]
				}
			})
			if fail == nil || len(fail.Instrs) == 0 {
				c.Fail("ERR.propagate", f, "callback marshal failure reported", call.Pos(), "the error of json.Marshal for the callback result is never tested: an unmarshalable result would be sent as a reply with neither result nor error")
				return
			}
			goal := func(i ssa.Instruction) bool {
				st, ok := i.(*ssa.Store)
				return ok && chk.IsField(st.Addr, c.M.JE) && !ir.IsNilConst(st.Val)
			}
			ok2 := goal(fail.Instrs[0])
			var at ssa.Instruction
			if !ok2 {
				ok2, at = ir.PathQuery{Goal: goal}.MustReach(fail.Instrs[0])
			}
			where := ""
			if at != nil {
				where = " (a path leaves at " + c.P.Pos(at.Pos()) + ")"
			}
			c.Check(ok2, "ERR.propagate", f, "callback marshal failure reported", call.Pos(), "on the failing edge of json.Marshal every path gives the reply an error member", "when marshalling the callback result fails the reply does not always get an error member"+where+": it would go out with neither result nor error")
		})
	}
	if n == 0 {
		c.Undecided("ERR.propagate", nil, "callback result marshal", 0, "no json.Marshal whose bytes become a message's result member found in the client")
	}
}

// ruleHasParamsIsPresence (C15): Request.HasParams is exactly "the raw
// parameters are non-empty"; the no-parameter wrapper relies on it.
func ruleHasParamsIsPresence(c *chk.Ctx) {
	f := c.M.Func(c.M.Pkg, "(*Request).HasParams")
	if f == nil {
		c.Undecided("TABLE.params", nil, "HasParams", 0, "Request.HasParams not found")
		return
	}
	ok := true
	n := 0
	for _, r := range ir.Returns(f) {
		n++
		x, y, op, isRel := ir.Rel(ir.Cond{V: ir.ReturnResult(r, 0), Truth: true})
		if !isRel {
			ok = false
			continue
		}
		_, isLen := ir.LenOf(x)
		k, isC := ir.ConstInt(y)
		if !(isLen && isC && ((k == 0 && (op == token.NEQ || op == token.GTR)) || (k == 1 && op == token.GEQ))) {
			ok = false
		}
		if len(ir.CondsAt(r.Block())) != 0 {
			ok = false
		}
	}
	c.Check(ok && n > 0, "TABLE.params", f, "parameters present ⇔ non-empty raw text", f.Pos(), "HasParams is exactly len(params) != 0", "HasParams is not exactly 'the raw parameters are non-empty' (e.g. it treats [] or {} as absent): a function that accepts no parameters would be called although parameters were sent")
}

// rulePositionalNames (C16): Positional records exactly the names it was given.
func rulePositionalNames(c *chk.Ctx) {
	f := c.M.Func(c.M.HandlerPkg, "Positional")
	if f == nil {
		c.Undecided("PAIR.positional", nil, "Positional", 0, "handler.Positional not found")
		return
	}
	var names *ssa.Parameter
	for _, p := range f.Params {
		if sl, ok := p.Type().Underlying().(*types.Slice); ok && sl.Elem().String() == "string" {
			names = p
		}
	}
	stored := false
	c.P.ExtInstrs(f, func(ins ssa.Instruction) {
		st, ok := ins.(*ssa.Store)
		if !ok {
			return
		}
		fa, ok := st.Addr.(*ssa.FieldAddr)
		if !ok {
			return
		}
		fv := ir.FieldVar(fa)
		if fv == nil || !strings.HasSuffix(fv.Type().String(), "[]string") {
			return
		}
		if names != nil && c.P.Canon(st.Val) == ssa.Value(names) {
			stored = true
		}
	})
	c.Check(stored, "PAIR.positional", f, "the given names are the recorded names", f.Pos(), "the names argument is stored in the function info, unfiltered", "Positional does not record the names it was given (they are re-derived, which drops \"-\" and empty names): the exact-length guard would count fewer positions than the function has arguments")
}

// ruleArgsMarshal (C16): Args.MarshalJSON hands the elements to encoding/json:
// every non-constant result is json.Marshal's pair.
func ruleArgsMarshal(c *chk.Ctx) {
	f := c.M.Func(c.M.HandlerPkg, "(Args).MarshalJSON")
	if f == nil {
		c.Undecided("PROV.encoder", nil, "Args.MarshalJSON", 0, "handler.Args.MarshalJSON not found")
		return
	}
	ok, n := true, 0
	for _, r := range ir.Returns(f) {
		v0 := ir.ReturnResult(r, 0)
		if _, isConst := ir.NormCell(v0).(*ssa.Const); isConst {
			continue
		}
		if sl, isSl := v0.(*ssa.Slice); isSl {
			if _, isAl := sl.X.(*ssa.Alloc); isAl {
				continue // a literal such as []byte("[]")
			}
		}
		if cv, isCv := v0.(*ssa.Convert); isCv {
			if _, isK := cv.X.(*ssa.Const); isK {
				continue
			}
		}
		n++
		good := false
		if e, isE := v0.(*ssa.Extract); isE && e.Index == 0 {
			if call, isCall := e.Tuple.(*ssa.Call); isCall && ir.IsCallTo(&call.Call, "encoding/json.Marshal") && ir.IsExtractOf(ir.ReturnResult(r, 1), call, 1) {
				good = true
			}
		}
		if !good {
			ok = false
		}
	}
	c.Check(ok && n > 0, "PROV.encoder", f, "Args encodes through encoding/json", f.Pos(), "every non-literal result of Args.MarshalJSON is json.Marshal's pair", "Args.MarshalJSON assembles its output by hand: elements would not be encoded (nor validated) as encoding/json does, so the array's length or validity can differ from the argument list")
}

// ruleMethodDecodedAsJSON (C17, C02): the member parser decodes the method name
// with encoding/json, straight into the message's method member.
func ruleMethodDecodedAsJSON(c *chk.Ctx) {
	n, okAll := 0, true
	nStores := 0
	for _, f := range pkgFuncs(c, c.M.Pkg) {
		if ir.RecvNamed(ir.Root(f)) != c.M.Jmessage {
			continue
		}
		isParser := false
		for _, p := range ir.Root(f).Params {
			if p.Type().String() == "[]byte" {
				isParser = true
			}
		}
		if !isParser {
			continue
		}
		c.P.ExtInstrs(f, func(ins ssa.Instruction) {
			if st, ok := ins.(*ssa.Store); ok && chk.IsField(st.Addr, c.M.JM) {
				nStores++
				if k, isK := st.Val.(*ssa.Const); !isK || k.Value == nil || k.Value.String() != `""` {
					okAll = false
				}
			}
			call, ok := ins.(*ssa.Call)
			if !ok || !ir.IsCallTo(&call.Call, "encoding/json.Unmarshal") || len(call.Call.Args) != 2 {
				return
			}
			if mi, ok := call.Call.Args[1].(*ssa.MakeInterface); ok {
				if fa, ok := mi.X.(*ssa.FieldAddr); ok && ir.FieldVar(fa) == c.M.JM {
					n++
				}
			}
		})
	}
	c.Check(n >= 1 && okAll, "TABLE.decode", nil, "method name decoded by encoding/json", 0, "the method member is filled by json.Unmarshal into the field itself (all JSON string escapes are honoured)", "the method name is not decoded by encoding/json into the message's method member (a hand-written unquoting differs on JSON escapes such as \\/ and surrogate pairs): valid requests would be refused or mapped to another name")
}

// ruleStartTimeOnlyWhenUnset (C17): the start function sets the start time
// only when it is still zero (a configured or earlier start time survives restarts).
func ruleStartTimeOnlyWhenUnset(c *chk.Ctx) {
	start := startFunc(c)
	if start == nil || c.M.Server == nil {
		return
	}
	var field *types.Var
	st := c.M.Server.Underlying().(*types.Struct)
	for i := 0; i < st.NumFields(); i++ {
		if st.Field(i).Type().String() == "time.Time" {
			field = st.Field(i)
		}
	}
	if field == nil {
		c.Undecided("TABLE.info", nil, "start time field", 0, "Server has no time.Time field")
		return
	}
	n := 0
	c.P.ExtInstrs(start, func(ins ssa.Instruction) {
		s2, ok := ins.(*ssa.Store)
		if !ok || !chk.IsField(s2.Addr, field) {
			return
		}
		n++
		alts := ir.CondAltsAt(s2.Block())
		good := len(alts) > 0
		for _, alt := range alts {
			zero := false
			for _, cd := range alt {
				if call, ok := cd.V.(*ssa.Call); ok && cd.Truth && ir.IsCallTo(&call.Call, "(time.Time).IsZero") {
					zero = true
				}
			}
			if !zero {
				good = false
			}
		}
		c.Check(good, "TABLE.info", start, "start time set only when unset", s2.Pos(), "the start time is stored only on the IsZero edge", "the start function can overwrite a start time that is already set (e.g. on every restart): rpc.serverInfo would not report the configured start time")
	})
}

// ruleParseRequestsNormalisesID (C18, C02): ParseRequests reports the
// null-normalised id, like the server's own dispatch does.
func ruleParseRequestsNormalisesID(c *chk.Ctx) {
	pr := c.M.Pkg.Func("ParseRequests")
	if pr == nil {
		return
	}
	n, ok := 0, true
	c.P.ExtInstrs(pr, func(ins ssa.Instruction) {
		st, isSt := ins.(*ssa.Store)
		if !isSt {
			return
		}
		fa, isFA := st.Addr.(*ssa.FieldAddr)
		if !isFA || ir.FieldVar(fa) == nil || ir.FieldVar(fa).Name() != "ID" || ir.FieldOwner(fa) == c.M.Jmessage {
			return
		}
		n++
		good := false
		if cv, isCv := st.Val.(*ssa.Convert); isCv {
			if call, isCall := cv.X.(*ssa.Call); isCall && isNullNormaliser(c, call.Call.StaticCallee()) && chk.LoadsField(call.Call.Args[0], c.M.JID) {
				good = true
			}
		}
		if !good {
			ok = false
		}
	})
	c.Check(ok && n > 0, "PROV.nullid", pr, "ParseRequests reports the normalised id", pr.Pos(), "the ID of a parsed request is string(normalise(inbound id)): \"id\":null is reported as a notification", "ParseRequests does not null-normalise the id: a member with \"id\":null would be reported with ID \"null\", and the HTTP bridge (which tests ID == \"\") would forward a notification as a call")
}

// ruleGetterAlwaysAnswers (C19): every path through the Getter's ServeHTTP writes a response.
func ruleGetterAlwaysAnswers(c *chk.Ctx) {
	f := jhttpFunc(c, "(Getter).ServeHTTP")
	if f == nil {
		c.Undecided("PAIR.body", nil, "Getter.ServeHTTP", 0, "not found")
		return
	}
	writes := func(i ssa.Instruction) bool {
		ci, ok := i.(ssa.CallInstruction)
		if !ok {
			return false
		}
		cc := ci.Common()
		if cc.IsInvoke() && (cc.Method.Name() == "WriteHeader" || cc.Method.Name() == "Write") {
			return true
		}
		// a repository helper that takes the ResponseWriter writes the reply
		if g := cc.StaticCallee(); g != nil && c.P.InRepo[g] {
			for _, a := range cc.Args {
				if strings.HasSuffix(a.Type().String(), "net/http.ResponseWriter") {
					return true
				}
			}
		}
		return ir.IsCallTo(cc, "net/http.Error")
	}
	ok := c.P.MustPass(f, writes, 0)
	c.Check(ok, "PAIR.body", f, "every request is answered", f.Pos(), "every path through ServeHTTP writes a status/body", "a path through the Getter's ServeHTTP returns without writing anything (an implicit 200 with an empty body): a failed call would not be reported with its status and JSON error object")
}

// ruleAcceptFailureEndsLoop (C20): once the accepter has failed, Loop does not accept again.
func ruleAcceptFailureEndsLoop(c *chk.Ctx) {
	if c.M.ServerPkg == nil {
		return
	}
	loop := c.M.ServerPkg.Func("Loop")
	if loop == nil {
		return
	}
	var accept *ssa.Call
	ir.Instrs(loop, func(ins ssa.Instruction) {
		if call, ok := ins.(*ssa.Call); ok && call.Call.IsInvoke() && call.Call.Method.Name() == "Accept" {
			accept = call
		}
	})
	if accept == nil {
		c.Undecided("PAIR.loop", loop, "accept call", loop.Pos(), "no Accept call found in Loop")
		return
	}
	var fail *ssa.BasicBlock
	ir.Instrs(loop, func(i2 ssa.Instruction) {
		iff, ok := i2.(*ssa.If)
		if !ok || fail != nil {
			return
		}
		x, eq, ok := ir.NilCompare(iff.Cond)
		if !ok || !ir.IsExtractOf(ir.NormCell(x), accept, 1) {
			return
		}
		if eq {
			fail = iff.Block().Succs[1]
		} else {
			fail = iff.Block().Succs[0]
		}
	})
	if fail == nil || len(fail.Instrs) == 0 {
		c.Undecided("PAIR.loop", loop, "accept failure edge", accept.Pos(), "the error of Accept is not tested")
		return
	}
	isAccept := func(i ssa.Instruction) bool { return i == ssa.Instruction(accept) }
	again := isAccept(fail.Instrs[0])
	if !again {
		again, _ = ir.Reaches(fail.Instrs[0], isAccept, nil)
	}
	c.Check(!again, "PAIR.loop", loop, "accept failure ends the loop", accept.Pos(), "from the failing edge of Accept no path leads back to Accept", "after the accepter has failed Loop can call Accept again (a retry): with a persistently failing accepter Loop would never wait for its servers and return the accepter's error")
}

// ruleMarshalOutputImmutable (C13): the bytes json.Marshal produced are never
// written through: no element store into them, and no append onto a shortened
// re-slice of them (which overwrites the tail in place when capacity allows).
// Those bytes go on the wire as raw members.
func ruleMarshalOutputImmutable(c *chk.Ctx) {
	n := 0
	for _, f := range c.P.Funcs {
		if !inPkg(c, f, c.M.Pkg) && !inPkg(c, f, c.M.JhttpPkg) {
			continue
		}
		ir.Instrs(f, func(ins ssa.Instruction) {
			e, ok := ins.(*ssa.Extract)
			if !ok || e.Index != 0 {
				return
			}
			call, ok := e.Tuple.(*ssa.Call)
			if !ok || !ir.IsCallTo(&call.Call, "encoding/json.Marshal") {
				return
			}
			n++
			bad := ""
			seen := map[ssa.Value]bool{}
			var walk func(v ssa.Value, shortened bool, depth int)
			walk = func(v ssa.Value, shortened bool, depth int) {
				if seen[v] || depth > 6 || v.Referrers() == nil {
					return
				}
				seen[v] = true
				for _, r := range *v.Referrers() {
					switch x := r.(type) {
					case *ssa.Slice:
						if x.X == v {
							walk(x, shortened || x.High != nil, depth+1)
						}
					case *ssa.ChangeType:
						walk(x, shortened, depth+1)
					case *ssa.Convert:
						if _, isSlice := x.Type().Underlying().(*types.Slice); isSlice {
							walk(x, shortened, depth+1)
						}
					case *ssa.Phi:
						walk(x, shortened, depth+1)
					case *ssa.IndexAddr:
						if x.X == v {
							for _, r2 := range *x.Referrers() {
								if st, ok := r2.(*ssa.Store); ok && st.Addr == ssa.Value(x) {
									bad = c.P.Pos(st.Pos())
								}
							}
						}
					case *ssa.Store:
						// kept in a local variable: follow its loads
						if al, ok := x.Addr.(*ssa.Alloc); ok && x.Val == v {
							for _, ld := range ir.CellLoads(al) {
								walk(ld, shortened, depth+1)
							}
						}
					case *ssa.Call:
						if b, ok := x.Call.Value.(*ssa.Builtin); ok && b.Name() == "append" && len(x.Call.Args) > 0 && x.Call.Args[0] == v {
							if shortened {
								bad = c.P.Pos(x.Pos())
							}
							walk(x, shortened, depth+1)
						}
						if b, ok := x.Call.Value.(*ssa.Builtin); ok && b.Name() == "copy" && len(x.Call.Args) > 0 && x.Call.Args[0] == v {
							bad = c.P.Pos(x.Pos())
						}
					}
				}
			}
			walk(e, false, 0)
			c.Check(bad == "", "PROV.raw", f, "marshalled bytes are not written through", call.Pos(), "no element store, copy-into or append onto a shortened re-slice of json.Marshal's output", "the bytes json.Marshal produced can be overwritten in place (at "+bad+"): the raw member sent on the wire would no longer be the JSON that was marshalled")
		})
	}
	if n == 0 {
		c.Undecided("PROV.raw", nil, "marshal sites", 0, "no json.Marshal call found")
	}
}
