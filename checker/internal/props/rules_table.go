package props

import (
	"fmt"
	"go/constant"
	"go/token"
	"go/types"
	"sort"
	"strings"

	"golang.org/x/tools/go/ssa"

	"jrpcvet/internal/chk"
	"jrpcvet/internal/ir"
)

// ---------------------------------------------------------------------------
// helpers

func constString(v ssa.Value) (string, bool) {
	k, ok := v.(*ssa.Const)
	if !ok || k.Value == nil || k.Value.Kind() != constant.String {
		return "", false
	}
	return constant.StringVal(k.Value), true
}

func pkgConstInt(pkg *ssa.Package, name string) (int64, bool) {
	o, ok := pkg.Pkg.Scope().Lookup(name).(*types.Const)
	if !ok {
		return 0, false
	}
	v, exact := constant.Int64Val(o.Val())
	return v, exact
}

func pkgConstString(pkg *ssa.Package, name string) (string, bool) {
	o, ok := pkg.Pkg.Scope().Lookup(name).(*types.Const)
	if !ok || o.Val().Kind() != constant.String {
		return "", false
	}
	return constant.StringVal(o.Val()), true
}

// errorGlobals maps each package-level *Error variable to the constant code
// of the composite literal it is initialised with.
func errorGlobals(c *chk.Ctx) map[*ssa.Global]int64 {
	out := map[*ssa.Global]int64{}
	init := c.M.Pkg.Func("init")
	if init == nil {
		return out
	}
	ir.Instrs(init, func(ins ssa.Instruction) {
		st, ok := ins.(*ssa.Store)
		if !ok {
			return
		}
		g, ok := st.Addr.(*ssa.Global)
		if !ok {
			return
		}
		al, ok := st.Val.(*ssa.Alloc)
		if !ok || types.Unalias(al.Type().(*types.Pointer).Elem()) != types.Type(c.M.ErrorT) {
			return
		}
		for _, ref := range *al.Referrers() {
			fa, ok := ref.(*ssa.FieldAddr)
			if !ok || ir.FieldVar(fa).Name() != "Code" {
				continue
			}
			for _, r2 := range *fa.Referrers() {
				if s2, ok := r2.(*ssa.Store); ok {
					if k, isC := ir.ConstInt(s2.Val); isC {
						out[g] = k
					}
				}
			}
		}
	})
	return out
}

// failRecorders: the private functions of the root package through which the
// member parser records a validation failure: they take a Code, build an Error
// with it, and either store it in the message (a method of the message type)
// or hand it back (a function the running "first defect" is threaded through).
// The map gives the position of the code among the arguments.
func failRecorders(c *chk.Ctx) map[*ssa.Function]int {
	out := map[*ssa.Function]int{}
	for _, f := range pkgFuncs(c, c.M.Pkg) {
		if f.Parent() != nil || ir.Exported(f) || len(f.Params) == 0 {
			continue
		}
		idx := -1
		for i, p := range f.Params {
			if strings.HasSuffix(p.Type().String(), ".Code") && !(i == 0 && f.Signature.Recv() != nil) {
				idx = i
			}
		}
		if idx < 0 {
			continue
		}
		builds := false
		ir.Instrs(f, func(ins ssa.Instruction) {
			st, ok := ins.(*ssa.Store)
			if !ok || ir.NormCell(st.Val) != ssa.Value(f.Params[idx]) {
				return
			}
			if fa, ok := st.Addr.(*ssa.FieldAddr); ok && ir.FieldOwner(fa) == c.M.ErrorT && ir.FieldVar(fa).Name() == "Code" {
				builds = true
			}
		})
		if !builds {
			continue
		}
		isMethod := ir.RecvNamed(f) == c.M.Jmessage
		returnsErr := f.Signature.Results().Len() == 1 && strings.HasSuffix(f.Signature.Results().At(0).Type().String(), ".Error")
		if isMethod || returnsErr {
			out[f] = idx
		}
	}
	return out
}

// errGlobalOf: v is a load of an *Error global, possibly through .WithData(...) and interface conversions.
func errGlobalOf(c *chk.Ctx, v ssa.Value) *ssa.Global {
	for i := 0; i < 6; i++ {
		switch x := v.(type) {
		case *ssa.MakeInterface:
			v = x.X
		case *ssa.ChangeInterface:
			v = x.X
		case *ssa.Call:
			g := x.Call.StaticCallee()
			if g != nil && ir.RecvNamed(g) == c.M.ErrorT && len(x.Call.Args) >= 1 && g.Signature.Results().Len() == 1 {
				v = x.Call.Args[0] // e.WithData(...) keeps e's code (C14-D1 checks it builds from e.Code)
			} else {
				return nil
			}
		case *ssa.UnOp:
			if x.Op == token.MUL {
				if g, ok := x.X.(*ssa.Global); ok {
					return g
				}
			}
			return nil
		default:
			return nil
		}
	}
	return nil
}

// ---------------------------------------------------------------------------
// C02-D1: classification tables

func ruleCodeTable(c *chk.Ctx, d *dispatchModel) {
	want := map[string]int64{}
	for _, n := range []string{"ParseError", "InvalidRequest", "MethodNotFound", "InvalidParams", "InternalError"} {
		if k, ok := pkgConstInt(c.M.Pkg, n); ok {
			want[n] = k
		}
	}
	spec := map[string]int64{"ParseError": -32700, "InvalidRequest": -32600, "MethodNotFound": -32601, "InvalidParams": -32602, "InternalError": -32603}
	for n, k := range spec {
		c.Check(want[n] == k, "TABLE.codes", nil, "constant "+n, 0, fmt.Sprintf("%s = %d as in the JSON-RPC 2.0 specification", n, k), fmt.Sprintf("%s = %d, the specification says %d", n, want[n], k))
	}
	// fail(code, ...) sites in the member parser
	recorders := failRecorders(c)
	nFail := 0
	for _, f := range pkgFuncs(c, c.M.Pkg) {
		ir.Calls(f, func(ci ssa.CallInstruction) {
			g := ci.Common().StaticCallee()
			idx, isRec := recorders[g]
			if g == nil || !isRec || idx >= len(ci.Common().Args) {
				return
			}
			nFail++
			k, isC := ir.ConstInt(ci.Common().Args[idx])
			ok := isC && (k == spec["ParseError"] || k == spec["InvalidRequest"])
			c.Check(ok, "TABLE.codes", f, "member validation code", ci.Pos(), fmt.Sprintf("constant code %d ∈ {-32700, -32600}", k), fmt.Sprintf("a structurally invalid member is classified with code %d (constant=%v), not -32700/-32600", k, isC))
		})
	}
	if nFail < 8 {
		c.Undecided("TABLE.codes", nil, "member validation sites", 0, "found %d validation failure sites in the member parser (confirmed by hand: 8)", nFail)
	}
	globs := errorGlobals(c)
	// envelope failure: the list parser's error return
	var listParser *ssa.Function
	for _, f := range pkgFuncs(c, c.M.Pkg) {
		if f.Parent() == nil && f.Signature.Recv() != nil && f.Signature.Params().Len() == 1 && f.Signature.Params().At(0).Type().String() == "[]byte" && f.Signature.Results().Len() == 1 {
			if p, ok := f.Signature.Recv().Type().(*types.Pointer); ok && isJmessagesType(c, p.Elem()) {
				listParser = f
			}
		}
	}
	if listParser == nil {
		c.Undecided("TABLE.codes", nil, "envelope parser", 0, "message-list parser not resolved")
	} else {
		n := 0
		for _, ra := range effectiveResults(c, listParser, 0, 0) {
			r := ra.r
			v := ir.ReturnResult(r, ra.idx)
			if ir.IsNilConst(v) {
				continue
			}
			n++
			g := errGlobalOf(c, v)
			k, ok := globs[g]
			c.Check(g != nil && ok && k == spec["ParseError"], "TABLE.codes", listParser, "undecodable message", r.Pos(), "an undecodable message yields the sentinel with code -32700", fmt.Sprintf("an undecodable message yields code %d (sentinel resolved=%v), not -32700", k, g != nil))
		}
		if n == 0 {
			c.Undecided("TABLE.codes", listParser, "undecodable message", listParser.Pos(), "no error return found in the envelope parser")
		}
	}
	// check/assign: empty method, unknown method, duplicate
	seen := map[string]bool{}
	// an error assignment: a store into task.err, or (when the stored value is the result of a
	// private helper) a return of that helper, each with the branch outcomes known there
	type errAssign struct {
		val   ssa.Value
		conds []ir.Cond
		pos   token.Pos
	}
	var assigns []errAssign
	var viaReturns func(call *ssa.Call, outer []ir.Cond, depth int)
	viaReturns = func(call *ssa.Call, outer []ir.Cond, depth int) {
		g := call.Call.StaticCallee()
		if g == nil || depth > 2 || !c.P.InRepo[g] || !c.P.InExt(d.checkAssign, g) {
			return
		}
		for _, r := range ir.Returns(g) {
			for i := range r.Results {
				v := ir.ReturnResult(r, i)
				if !types.Identical(v.Type(), call.Type()) && g.Signature.Results().Len() != 1 {
					continue
				}
				cs := append(append([]ir.Cond{}, outer...), ir.CondsAt(r.Block())...)
				assigns = append(assigns, errAssign{v, cs, r.Pos()})
				if inner, ok := v.(*ssa.Call); ok {
					viaReturns(inner, cs, depth+1)
				}
			}
		}
	}
	c.P.ExtInstrs(d.checkAssign, func(ins ssa.Instruction) {
		st, ok := ins.(*ssa.Store)
		if !ok {
			return
		}
		fa, ok := st.Addr.(*ssa.FieldAddr)
		if !ok || ir.FieldVar(fa) != c.M.TErr {
			return
		}
		cs := c.P.CondsWithin(st, d.checkAssign)
		assigns = append(assigns, errAssign{st.Val, cs, st.Pos()})
		if call, ok := st.Val.(*ssa.Call); ok {
			viaReturns(call, cs, 0)
		}
	})
	for _, a := range assigns {
		g := errGlobalOf(c, a.val)
		if g == nil {
			continue
		}
		k := globs[g]
		role := ""
		for _, cd := range a.conds {
			if x, y, op, isRel := ir.Rel(cd); isRel && op == token.EQL {
				if s, isS := constString(y); isS && s == "" && chk.LoadsField(ir.NormCell(x), c.M.QMethod) {
					role = "empty method"
				}
			}
			if x, eq, ok := ir.NilCompare(cd.V); ok && eq == cd.Truth {
				if _, fv, ok := taskFieldLoad(c, x); ok && fv == c.M.TM {
					role = "unknown method"
				}
				// (or the handler just looked up, tested in a local before or after it is stored)
				if refs := x.Referrers(); refs != nil {
					for _, ref := range *refs {
						if st, isSt := ref.(*ssa.Store); isSt && st.Val == x {
							if fa, isFA := st.Addr.(*ssa.FieldAddr); isFA && ir.FieldVar(fa) == c.M.TM {
								role = "unknown method"
							}
						}
					}
				}
			}
			if x, eq, ok := ir.NilCompare(cd.V); ok && eq != cd.Truth {
				if _, isLk := x.(*ssa.Lookup); isLk && role == "" {
					role = "duplicate id"
				}
			}
			if e, ok := cd.V.(*ssa.Extract); ok && e.Index == 1 && cd.Truth && role == "" {
				if lk, isLk := e.Tuple.(*ssa.Lookup); isLk && lk.CommaOk {
					role = "duplicate id"
				}
			}
		}
		if role == "" {
			continue
		}
		wantK := spec["InvalidRequest"]
		if role == "unknown method" {
			wantK = spec["MethodNotFound"]
		}
		seen[role] = true
		c.Check(k == wantK, "TABLE.codes", d.checkAssign, role, a.pos, fmt.Sprintf("%s is answered with code %d", role, k), fmt.Sprintf("%s is answered with code %d, want %d", role, k, wantK))
	}
	for _, role := range []string{"empty method", "unknown method", "duplicate id"} {
		if !seen[role] {
			c.Undecided("TABLE.codes", d.checkAssign, role, d.checkAssign.Pos(), "no error assignment found for the %s case", role)
		}
	}
}

// C02-D2: the member's deferred error reaches the task before assignment; handler assignment needs err == nil.
func ruleInvalidNeverRuns(c *chk.Ctx, d *dispatchModel) {
	f := d.checkAssign
	carried := false
	c.P.ExtInstrs(f, func(ins ssa.Instruction) {
		st, ok := ins.(*ssa.Store)
		if !ok {
			return
		}
		fa, ok := st.Addr.(*ssa.FieldAddr)
		if !ok || ir.FieldVar(fa) != c.M.TErr {
			return
		}
		v := st.Val
		if mi, ok := v.(*ssa.MakeInterface); ok {
			v = mi.X
		}
		if chk.LoadsField(v, c.M.JErr) {
			// governed by req.err != nil
			for _, cd := range c.P.CondsWithin(st, f) {
				if x, eq, ok := ir.NilCompare(cd.V); ok && chk.LoadsField(x, c.M.JErr) && eq != cd.Truth {
					carried = true
				}
			}
		}
	})
	c.Check(carried, "PAIR.invalid", f, "deferred validation error carried into the task", f.Pos(), "task.err ← member.err on the member.err != nil edge", "a member's validation error is not carried into its task: an invalid member could be given a handler")
	// every store of a handler into a task is governed by t.err == nil
	n := 0
	c.P.ExtInstrs(f, func(ins ssa.Instruction) {
		st, ok := ins.(*ssa.Store)
		if !ok {
			return
		}
		fa, ok := st.Addr.(*ssa.FieldAddr)
		if !ok || ir.FieldVar(fa) != c.M.TM || ir.FieldOwner(fa) != c.M.Task {
			return
		}
		n++
		task := c.P.Canon(fa.X)
		guarded := false
		for _, cd := range c.P.CondsWithin(st, f) {
			if known, isNil := isErrNilOfTask(c, cd, task); known && isNil {
				guarded = true
			}
		}
		c.Check(guarded, "PAIR.invalid", f, "handler assigned only to valid tasks", st.Pos(), "the handler is assigned on the err == nil edge of the same task", "a handler is assigned to a task that may already have failed validation")
	})
	if n == 0 {
		c.Undecided("PAIR.invalid", f, "handler assignment", f.Pos(), "no handler assignment found")
	}
}

// C02-D3: id handling in the parser and the null predicate.
func ruleIDHandling(c *chk.Ctx) {
	// isNull: len == 4 and the four bytes n,u,l,l
	for _, pkg := range []*ssa.Package{c.M.Pkg, c.M.ChanPkg} {
		f := c.M.Func(pkg, "isNull")
		if f == nil {
			// by role: an unexported predicate over a byte slice that mentions the token null
			for _, g := range pkgFuncs(c, pkg) {
				if g.Parent() != nil || ir.Exported(g) || g.Signature.Recv() != nil || g.Signature.Params().Len() != 1 || g.Signature.Results().Len() != 1 || g.Signature.Results().At(0).Type().String() != "bool" {
					continue
				}
				if _, isSlice := g.Signature.Params().At(0).Type().Underlying().(*types.Slice); !isSlice {
					continue
				}
				mentions := false
				ir.Instrs(g, func(ins ssa.Instruction) {
					for _, op := range ins.Operands(nil) {
						if op != nil && *op != nil {
							if s, isS := constString(*op); isS && s == "null" {
								mentions = true
							}
							if k, isK := ir.ConstInt(*op); isK && k == 'u' {
								mentions = true
							}
						}
					}
				})
				if mentions {
					f = g
				}
			}
		}
		if f == nil {
			c.Undecided("TABLE.null", nil, pkg.Pkg.Name()+".isNull", 0, "null predicate not found")
			continue
		}
		var lens []int64
		bytes := map[int64]int64{}
		ir.Instrs(f, func(ins ssa.Instruction) {
			bo, ok := ins.(*ssa.BinOp)
			// (a byte test written negatively — !(msg[0] != 'n' || …) — names the same byte)
			if ok && bo.Op == token.NEQ {
				if _, isLen := ir.LenOf(bo.X); isLen {
					if k, isK := ir.ConstInt(bo.Y); isK && negatedLenTest(f, bo) {
						lens = append(lens, k)
					}
					return
				}
				if u, isU := bo.X.(*ssa.UnOp); isU {
					if ia, isIA := u.X.(*ssa.IndexAddr); isIA {
						if idx, isC := ir.ConstInt(ia.Index); isC {
							if k, isK := ir.ConstInt(bo.Y); isK && negatedByteTests(f) {
								bytes[idx] = k
							}
						}
					}
				}
				return
			}
			if !ok || bo.Op != token.EQL {
				return
			}
			k, isC := ir.ConstInt(bo.Y)
			if !isC {
				return
			}
			if _, isLen := ir.LenOf(bo.X); isLen {
				lens = append(lens, k)
				return
			}
			if u, ok := bo.X.(*ssa.UnOp); ok {
				if ia, ok := u.X.(*ssa.IndexAddr); ok {
					if idx, isC := ir.ConstInt(ia.Index); isC {
						bytes[idx] = k
					}
				}
			}
		})
		ok := len(lens) == 1 && lens[0] == 4 && len(bytes) == 4 && string([]byte{byte(bytes[0]), byte(bytes[1]), byte(bytes[2]), byte(bytes[3])}) == "null"
		if !ok && len(lens) == 0 && len(bytes) == 0 {
			// or a whole-value comparison with the constant text: string(msg) == "null"
			cmp, other := 0, 0
			ir.Instrs(f, func(ins ssa.Instruction) {
				bo, isBO := ins.(*ssa.BinOp)
				if !isBO {
					return
				}
				sx, isX := constString(bo.X)
				sy, isY := constString(bo.Y)
				operand := bo.X
				if isX {
					operand = bo.Y
				}
				cv, isConv := operand.(*ssa.Convert)
				_, fromParam := ssa.Value(nil), false
				if isConv {
					_, fromParam = cv.X.(*ssa.Parameter)
				}
				if bo.Op == token.EQL && ((isY && sy == "null") || (isX && sx == "null")) && fromParam {
					cmp++
				} else {
					other++
				}
			})
			allRet := true
			for _, r := range ir.Returns(f) {
				if _, isBO := ir.ReturnResult(r, 0).(*ssa.BinOp); !isBO {
					allRet = false
				}
			}
			ok = cmp == 1 && other == 0 && allRet
		}
		if !ok {
			// or a length test plus a byte-by-byte loop against the constant text:
			// len(msg) == len(K) ∧ ∀i. msg[i] == K[i], K == "null"
			lenOK, loopOK, other := false, false, 0
			ir.Instrs(f, func(ins ssa.Instruction) {
				bo, isBO := ins.(*ssa.BinOp)
				if !isBO {
					return
				}
				switch bo.Op {
				case token.EQL, token.NEQ:
					if _, isLen := ir.LenOf(bo.X); isLen {
						if k, isC := ir.ConstInt(bo.Y); isC && k == 4 {
							lenOK = true
							return
						}
					}
					for _, pr := range [][2]ssa.Value{{bo.X, bo.Y}, {bo.Y, bo.X}} {
						u, isU := pr[0].(*ssa.UnOp)
						var kx, kidx ssa.Value
						switch lk := pr[1].(type) {
						case *ssa.Lookup:
							kx, kidx = lk.X, lk.Index
						case *ssa.Index:
							kx, kidx = lk.X, lk.Index
						}
						if !isU || kx == nil {
							continue
						}
						ia, isIA := u.X.(*ssa.IndexAddr)
						ks, isK := constString(kx)
						if isIA && isK && ks == "null" && ia.Index == kidx {
							if _, fromParam := ia.X.(*ssa.Parameter); fromParam {
								loopOK = true
								return
							}
						}
					}
					other++
				case token.LSS:
					if k, isC := ir.ConstInt(bo.Y); isC && k == 4 {
						return // the loop bound i < len(K)
					}
					if x, isLen := ir.LenOf(bo.Y); isLen {
						if _, fromParam := x.(*ssa.Parameter); fromParam {
							return // the loop bound i < len(msg), equal to len(K) under the length test
						}
					}
					other++
				case token.ADD:
					return // i++
				default:
					other++
				}
			})
			if lenOK && loopOK && other == 0 {
				ok = true
			}
		}
		if !ok {
			// or a length test plus one comparison of the four bytes as an array:
			// len(msg) == 4 ∧ [4]byte(msg) == [4]byte{'n','u','l','l'}
			lenOK, arrOK, other := false, false, 0
			ir.Instrs(f, func(ins ssa.Instruction) {
				bo, isBO := ins.(*ssa.BinOp)
				if !isBO {
					return
				}
				if bo.Op != token.EQL {
					other++
					return
				}
				if _, isLen := ir.LenOf(bo.X); isLen {
					if k, isC := ir.ConstInt(bo.Y); isC && k == 4 {
						lenOK = true
						return
					}
				}
				for _, pr := range [][2]ssa.Value{{bo.X, bo.Y}, {bo.Y, bo.X}} {
					ua, okA := pr[0].(*ssa.UnOp)
					ub, okB := pr[1].(*ssa.UnOp)
					if !okA || !okB {
						continue
					}
					conv, isConv := ua.X.(*ssa.SliceToArrayPointer)
					lit, isLit := ub.X.(*ssa.Alloc)
					if !isConv || !isLit {
						continue
					}
					if _, fromParam := conv.X.(*ssa.Parameter); !fromParam {
						continue
					}
					text := map[int64]int64{}
					for _, ref := range *lit.Referrers() {
						if ia, isIA := ref.(*ssa.IndexAddr); isIA {
							idx, isC := ir.ConstInt(ia.Index)
							for _, r2 := range *ia.Referrers() {
								if st, isSt := r2.(*ssa.Store); isSt && isC {
									if k, isK := ir.ConstInt(st.Val); isK {
										text[idx] = k
									}
								}
							}
						}
					}
					if len(text) == 4 && string([]byte{byte(text[0]), byte(text[1]), byte(text[2]), byte(text[3])}) == "null" {
						arrOK = true
						return
					}
				}
				other++
			})
			if lenOK && arrOK && other == 0 {
				ok = true
			}
		}
		c.Check(ok, "TABLE.null", f, "null token", f.Pos(), "exactly the 4-byte token null counts as absent", fmt.Sprintf("the null predicate tests len %v and bytes %v, not exactly the token null", lens, bytes))
	}
	// the member parser stores the raw id only on the isValidID true edge
	n := 0
	idPreds := map[*ssa.Function]bool{}
	for _, f := range pkgFuncs(c, c.M.Pkg) {
		ir.Instrs(f, func(ins ssa.Instruction) {
			st, ok := ins.(*ssa.Store)
			if !ok || !chk.IsField(st.Addr, c.M.JID) {
				return
			}
			// (construction of a fresh message from known parts is not parsing — unless what is
			// stored is a token of the decoded member object: a parser may fill a local
			// message first and copy it out whole)
			if _, isAlloc := ir.NormCell(st.Addr.(*ssa.FieldAddr).X).(*ssa.Alloc); isAlloc && !fromDecodedObject(c, st.Val) {
				return
			}
			// the member parser: a method of the message type, or whoever stores a token of the
			// decoded member object
			if ir.RecvNamed(f) != c.M.Jmessage && !fromDecodedObject(c, st.Val) {
				return
			}
			// only stores of a looked-up/decoded value (the parser), not literal construction
			if _, isLk := st.Val.(*ssa.Extract); !isLk {
				if _, isNext := st.Val.(*ssa.Lookup); !isNext {
					// ranged map value
				}
			}
			valid := false
			for _, cd := range ir.CondsAt(st.Block()) {
				if call, ok := cd.V.(*ssa.Call); ok && cd.Truth {
					g := call.Call.StaticCallee()
					if g == nil || !c.P.InRepo[g] || g.Signature.Results().Len() != 1 || g.Signature.Results().At(0).Type().String() != "bool" {
						continue
					}
					for _, a := range call.Call.Args {
						if a == st.Val || ir.NormCell(a) == ir.NormCell(st.Val) {
							valid = true
							idPreds[g] = true
						}
					}
				}
			}
			n++
			c.Check(valid, "TABLE.null", f, "id stored only when valid", st.Pos(), "the member's id is kept only on the isValidID edge (otherwise the reply carries null)", "an id of invalid type is stored and would be echoed")
		})
	}
	if n == 0 {
		c.Undecided("TABLE.null", nil, "id store in parser", 0, "no id store found in the member parser")
	}
	// the validity predicate classifies the raw token; it does not run it through a numeric
	// parser: every JSON number is a valid id, and strconv's integer and float parsers (and a
	// decode into a Go number) reject some of them — fractions, exponents, values out of range
	for g := range idPreds {
		bad := ""
		c.P.ExtInstrs(g, func(ins ssa.Instruction) {
			call, ok := ins.(*ssa.Call)
			if !ok {
				return
			}
			callee := call.Call.StaticCallee()
			if callee == nil || callee.Pkg == nil {
				return
			}
			switch path := callee.Pkg.Pkg.Path(); {
			case path == "strconv" && (strings.HasPrefix(callee.Name(), "Parse") || callee.Name() == "Atoi"):
				bad = "strconv." + callee.Name() + " at " + c.P.Pos(call.Pos())
			case path == "encoding/json" && (callee.Name() == "Unmarshal" || callee.Name() == "Decode"):
				bad = "json." + callee.Name() + " at " + c.P.Pos(call.Pos())
			case (path == "bytes" || path == "strings") && (strings.HasPrefix(callee.Name(), "Index") || strings.HasPrefix(callee.Name(), "LastIndex") || strings.HasPrefix(callee.Name(), "Contains") || callee.Name() == "Count") && len(call.Call.Args) > 0 && derivesFromParam(call.Call.Args[0]):
				// (what is searched is the token; looking the token's first byte up in a constant
				// table of admissible first bytes is a classification by first byte)
				// (nor does it search the token's text: a string id may contain any character,
				// and the kind of token is told by its first byte)
				bad = path + "." + callee.Name() + " at " + c.P.Pos(call.Pos())
			}
		})
		c.P.ExtInstrs(g, func(ins ssa.Instruction) {
			if ia, ok := ins.(*ssa.IndexAddr); ok && ir.InCycle(ia.Block()) {
				if _, isParam := ir.NormCell(ia.X).(*ssa.Parameter); isParam && ins.Parent() == g && bad == "" {
					bad = "a scan of the token's bytes at " + c.P.Pos(ia.Pos())
				}
			}
		})
		c.Check(bad == "", "TABLE.null", g, "every JSON number is a valid id", g.Pos(), "the id predicate classifies the token without a numeric parser", "the id validity predicate runs the token through "+bad+": a request whose id is a JSON number that this parser rejects (a fraction, an exponent, a value out of range), or a string containing the character searched for, would be refused and answered with id null")
	}
}

// C02-D7: reader error pushes.
func ruleReaderErrorReplies(c *chk.Ctx) {
	reader, _ := readerOf(c, "server")
	if reader == nil {
		c.Undecided("PAIR.readerr", nil, "reader", 0, "reader not resolved")
		return
	}
	globs := errorGlobals(c)
	// the direct push function: Server method with one error param that calls the encoder wrapper with a literal list
	type push struct {
		ci  ssa.CallInstruction
		arg ssa.Value
	}
	var pushes []push
	collect := func(ci ssa.CallInstruction) {
		g := ci.Common().StaticCallee()
		if g == nil || ir.RecvNamed(g) != c.M.Server {
			return
		}
		errIdx := -1
		for i := 0; i < g.Signature.Params().Len(); i++ {
			if g.Signature.Params().At(i).Type().String() == "error" {
				if errIdx >= 0 {
					return
				}
				errIdx = i
			}
		}
		if errIdx < 0 {
			return
		}
		if g == stopFunc(c, "server") {
			return
		}
		// the push function is the one that builds a message with the literal id null
		buildsNull := false
		ir.Instrs(g, func(ins ssa.Instruction) {
			if st, ok := ins.(*ssa.Store); ok && chk.IsField(st.Addr, c.M.JID) {
				if cv, ok := st.Val.(*ssa.Convert); ok {
					if s, isS := constString(cv.X); isS && s == "null" {
						buildsNull = true
					}
				}
			}
		})
		if !buildsNull {
			return
		}
		pushes = append(pushes, push{ci, ci.Common().Args[1+errIdx]})
	}
	for _, rf := range c.P.Ext(reader) {
		ir.Calls(rf, collect)
	}
	var roles []string
	for _, p := range pushes {
		conds := ir.CondsAt(p.ci.Block())
		role := ""
		for _, cd := range conds {
			if x, eq, ok := ir.NilCompare(cd.V); ok && eq != cd.Truth {
				// derr != nil: x is (possibly via a helper's parameter) the list parser's result
				isParse := func(v ssa.Value) bool {
					call, ok := v.(*ssa.Call)
					return ok && call.Call.StaticCallee() != nil && isListParser(c, call.Call.StaticCallee())
				}
				for _, src := range c.P.SourcesStop(x, isParse) {
					if isParse(src) {
						role = "parse failure"
					}
				}
			}
			if bo, ok := cd.V.(*ssa.BinOp); ok && bo.Op == token.EQL && cd.Truth {
				if x, isLen := ir.LenOf(bo.X); isLen {
					if k, isC := ir.ConstInt(bo.Y); isC && k == 0 {
						role = "empty batch"
						// it must be the parsed message that is empty, not what is left after replies were filtered out
						ff := filterFunc(c)
						for _, src := range c.P.SourcesStop(x, func(v ssa.Value) bool {
							call, ok := v.(*ssa.Call)
							return ok && ff != nil && call.Call.StaticCallee() == ff
						}) {
							if call, ok := src.(*ssa.Call); ok && ff != nil && call.Call.StaticCallee() == ff {
								role = "empty after filtering"
							}
						}
					}
				}
			}
		}
		roles = append(roles, role)
		switch role {
		case "parse failure":
			c.Pass("PAIR.readerr", reader, "undecodable message answered", p.ci.Pos(), "on the decode-error edge the reader pushes the decoder's error directly")
		case "empty batch":
			g := errGlobalOf(c, p.arg)
			c.Check(g != nil && globs[g] == -32600, "PAIR.readerr", reader, "empty batch answered", p.ci.Pos(), "on the len == 0 edge the reader pushes the -32600 sentinel", "the empty-batch edge does not push a -32600 sentinel")
		case "empty after filtering":
			c.Fail("PAIR.readerr", reader, "empty batch answered", p.ci.Pos(), "the empty-batch error is pushed when the batch is empty after reply filtering, not when the parsed message is empty: a message that consists only of callback replies (nothing to report) would be answered with an uncorrelated error")
		default:
			c.Undecided("PAIR.readerr", reader, "direct error push", p.ci.Pos(), "unrecognised condition for a direct error push")
		}
		// never followed by a queue insert on the same path
		reach, _ := ir.Reaches(p.ci, func(i ssa.Instruction) bool {
			ci, ok := i.(ssa.CallInstruction)
			return ok && ci.Common().StaticCallee() != nil && ir.BaseName(ci.Common().StaticCallee()) == "Add" && len(ci.Common().Args) > 0 && chk.IsField(ci.Common().Args[0], c.M.SInq)
		}, func(i ssa.Instruction) bool {
			// stop at the next Recv / at the head of the enclosing loop (next iteration)
			if hdr := loopHeaderOf(p.ci.Block()); hdr != nil && i.Block() == hdr {
				return true
			}
			ci, ok := i.(ssa.CallInstruction)
			return ok && ci.Common().IsInvoke() && ci.Common().Method.Name() == "Recv"
		})
		c.Check(!reach, "PAIR.readerr", reader, "error edge never queues", p.ci.Pos(), "nothing is queued after a direct error reply in the same iteration", "a message answered directly with an error can also be queued")
	}
	sort.Strings(roles)
	if strings.Join(roles, ",") != "empty batch,parse failure" {
		c.Fail("PAIR.readerr", reader, "both reader error edges answered", reader.Pos(), "the reader's direct error pushes are %v (want one for the decode error, one for the empty batch)", roles)
	}
	// the pushed message has ID literal "null"
	for _, p := range pushes {
		g := p.ci.Common().StaticCallee()
		okNull := false
		ir.Instrs(g, func(ins ssa.Instruction) {
			st, ok := ins.(*ssa.Store)
			if !ok || !chk.IsField(st.Addr, c.M.JID) {
				return
			}
			if cv, ok := st.Val.(*ssa.Convert); ok {
				if s, isS := constString(cv.X); isS && s == "null" {
					okNull = true
				}
			}
		})
		c.Check(okNull, "PAIR.readerr", g, "direct error reply has id null", g.Pos(), "the pushed error message carries the literal id null", "the direct error reply does not carry the literal id null")
		break
	}
}

// ---------------------------------------------------------------------------
// C13

// ruleVersionLiteral: every string constant in library code that contains
// "jsonrpc": carries the value of the Version constant.
func ruleVersionLiteral(c *chk.Ctx) {
	ver, ok := pkgConstString(c.M.Pkg, "Version")
	if !ok {
		c.Undecided("TABLE.version", nil, "Version", 0, "Version constant not found")
		return
	}
	n := 0
	for _, f := range c.P.Funcs {
		ir.Instrs(f, func(ins ssa.Instruction) {
			for _, op := range ins.Operands(nil) {
				if op == nil || *op == nil {
					continue
				}
				s, isS := constString(*op)
				if !isS || !strings.Contains(s, `"jsonrpc"`) {
					continue
				}
				n++
				ok := strings.Contains(s, `"jsonrpc":"`+ver+`"`)
				c.Check(ok, "TABLE.version", f, "version member literal", ins.Pos(), "emitted literal carries \"jsonrpc\":\""+ver+"\" (= Version, which the parser's validity test compares against)", "an emitted message literal "+fmt.Sprintf("%q", s)+" does not carry \"jsonrpc\":\""+ver+"\"")
			}
		})
	}
	if n < 2 {
		c.Undecided("TABLE.version", nil, "version literals", 0, "found %d version literals (want ≥ 2: the encoder and the bridge's error object)", n)
	}
	// the parser's validity predicate compares with Version
	// (by role: a comparison with the version literal somewhere in the core package's decoding code)
	var where *ssa.Function
	for _, f := range pkgFuncs(c, c.M.Pkg) {
		ir.Instrs(f, func(ins ssa.Instruction) {
			if bo, ok := ins.(*ssa.BinOp); ok && (bo.Op == token.EQL || bo.Op == token.NEQ) {
				for _, side := range []ssa.Value{bo.X, bo.Y} {
					if s, isS := constString(side); isS && s == ver && where == nil {
						where = ins.Parent()
					}
				}
			}
		})
	}
	if where == nil {
		c.Fail("TABLE.version", nil, "version check", 0, "the parser's version predicate does not compare with Version: no comparison with the version literal in the core package")
	} else {
		c.Pass("TABLE.version", where, "version check", where.Pos(), "the parser accepts exactly Version")
	}
}

// ruleEncoderWrites: every byte written by the member encoder has a safe source.
func ruleEncoderWrites(c *chk.Ctx) {
	encs := encoderFuncs(c)
	for f := range encs {
		if _, isSlice := f.Signature.Recv().Type().Underlying().(*types.Slice); isSlice {
			// list encoder: element results on their success edge, constants
			ruleEncoderWritesIn(c, f, encs, false)
		} else {
			ruleEncoderWritesIn(c, f, encs, true)
		}
	}
}

func ruleEncoderWritesIn(c *chk.Ctx, f *ssa.Function, encs map[*ssa.Function]bool, member bool) {
	n := 0
	for _, em := range emitsOf(c, f, encs) {
		n++
		arg := em.arg
		if cv, isCV := arg.(*ssa.Convert); isCV {
			if k, isK := cv.X.(*ssa.Const); isK {
				arg = k
			}
		}
		why, ok := "", false
		rawField := func(v ssa.Value) (string, bool) {
			if ct, isCT := v.(*ssa.ChangeType); isCT {
				v = ct.X
			}
			if u, isU := v.(*ssa.UnOp); isU && (chk.LoadsField(u, c.M.JID) || chk.LoadsField(u, c.M.JP) || chk.LoadsField(u, c.M.JR)) {
				return ir.FieldVar(u.X.(*ssa.FieldAddr)).Name(), true
			}
			return "", false
		}
		// checkedResult: v is the bytes of json.Marshal / an element encoder, and wherever it is
		// used (written, or put into a list to be written later) the call's error is known nil
		checkedResult := func(v ssa.Value, at []ir.Cond) (bool, bool) {
			x, isE := v.(*ssa.Extract)
			if !isE || x.Index != 0 {
				return false, false
			}
			call, isCall := x.Tuple.(*ssa.Call)
			if !isCall {
				return false, false
			}
			isMarshal := ir.IsCallTo(&call.Call, "encoding/json.Marshal")
			isEnc := call.Call.StaticCallee() != nil && encs[call.Call.StaticCallee()]
			if !isMarshal && !isEnc {
				return false, false
			}
			sameErr := func(v ssa.Value) bool { return ir.IsExtractOf(v, call, 1) }
			if at != nil {
				return true, ir.ProvesNil(at, sameErr)
			}
			// kept for later: every place the value goes is on the err == nil edge
			all := len(*x.Referrers()) > 0
			for _, ref := range *x.Referrers() {
				if in, isIns := ref.(ssa.Instruction); isIns && !ir.ProvesNil(ir.CondsAt(in.Block()), sameErr) {
					all = false
				}
			}
			return true, all
		}
		var safe func(arg ssa.Value, at []ir.Cond, depth int) (bool, string)
		safe = func(arg ssa.Value, at []ir.Cond, depth int) (bool, string) {
			if depth > 3 {
				return false, ""
			}
			if _, isK := arg.(*ssa.Const); isK {
				return true, "constant"
			}
			if isRes, checked := checkedResult(arg, at); isRes {
				if checked {
					return true, "json.Marshal / encoder result on its err == nil edge"
				}
				return false, "marshal result written without checking its error"
			}
			if name, isRaw := rawField(arg); isRaw {
				return true, "raw field " + name + " (JSON by construction, see PROV.raw)"
			}
			// an element of a list of pieces collected earlier: every piece put into it
			if u, isU := arg.(*ssa.UnOp); isU && u.Op == token.MUL {
				if ia, isIA := u.X.(*ssa.IndexAddr); isIA {
					if els, known := c.P.ElementValues(ia.X); known && len(els) > 0 {
						for _, e := range els {
							if okE, whyE := safe(e, nil, depth+1); !okE {
								return false, whyE
							}
						}
						return true, "pieces collected on their success edges"
					}
				}
			}
			// the pieces joined with a constant separator
			if call, isCall := arg.(*ssa.Call); isCall && ir.IsCallTo(&call.Call, "bytes.Join") && len(call.Call.Args) == 2 {
				sepOK := false
				if sl, isSl := call.Call.Args[1].(*ssa.Slice); isSl {
					if al, isAl := sl.X.(*ssa.Alloc); isAl {
						sepOK = true
						for _, ref := range *al.Referrers() {
							if ia, isIA := ref.(*ssa.IndexAddr); isIA {
								for _, r2 := range *ia.Referrers() {
									if st, isSt := r2.(*ssa.Store); isSt {
										if _, isK := st.Val.(*ssa.Const); !isK {
											sepOK = false
										}
									}
								}
							}
						}
					}
				}
				if els, known := c.P.ElementValues(call.Call.Args[0]); known && len(els) > 0 && sepOK {
					for _, e := range els {
						if okE, whyE := safe(e, nil, depth+1); !okE {
							return false, whyE
						}
					}
					return true, "pieces collected on their success edges, joined with a constant"
				}
			}
			// a field of the record a private helper returned: its value at each of the helper's returns
			if hc, ri, fk, isRes := ir.StructFieldOrigin(ir.NormCell(arg)); isRes {
				if h := hc.Call.StaticCallee(); h != nil && c.P.InRepo[h] && !ir.Exported(h) {
					if fvs, known := ir.ResultFieldVals(h, ri, fk); known {
						for _, fv := range fvs {
							if fv.Zero {
								continue
							}
							if okE, whyE := safe(fv.Val, ir.CondsAt(fv.Ret.Block()), depth+1); !okE {
								return false, whyE
							}
						}
						return true, "a member prepared by " + ir.Name(h) + " from safe pieces"
					}
				}
			}
			return false, ""
		}
		ok, why = safe(arg, em.conds(), 0)
		if !ok && why == "" {
			why = fmt.Sprintf("%T is neither a constant, a checked json.Marshal result, nor a raw ID/P/R field", arg)
		}
		c.Check(ok, "PROV.encoder", f, "bytes written by the encoder", em.inner.Pos(), why, "the encoder writes bytes with an unsafe source: "+why+" (e.g. a method name written without JSON quoting/escaping)")
	}
	if n == 0 {
		// a wrapper that delegates to another encoder function writes nothing itself
		delegates := false
		ir.Calls(f, func(ci ssa.CallInstruction) {
			if g := ci.Common().StaticCallee(); g != nil && g != f && encs[g] {
				delegates = true
			}
		})
		if !delegates {
			c.Undecided("PROV.encoder", f, "encoder writes", f.Pos(), "no buffer writes found in the encoder")
		}
	}
	// errors of the element encoder / json.Marshal inside the encoder propagate: on the err != nil edge the function returns that error
	ir.Instrs(f, func(ins ssa.Instruction) {
		call, ok := ins.(*ssa.Call)
		if !ok {
			return
		}
		isMarshal := ir.IsCallTo(&call.Call, "encoding/json.Marshal")
		isEnc := call.Call.StaticCallee() != nil && encs[call.Call.StaticCallee()]
		if !isMarshal && !isEnc {
			return
		}
		// the call's error: the last component of its result tuple, or its only result
		nres := 1
		if tup, ok := call.Type().(*types.Tuple); ok {
			nres = tup.Len()
		}
		isErrOf := func(v ssa.Value) bool {
			if nres == 1 {
				return v == ssa.Value(call)
			}
			return ir.IsExtractOf(v, call, nres-1)
		}
		last := f.Signature.Results().Len() - 1
		if last < 0 {
			return
		}
		// direct tail call `return x.toJSON()` is fine
		tail := false
		for _, r := range ir.Returns(f) {
			if len(r.Results) != last+1 {
				continue
			}
			if last == 1 && nres == 2 && ir.IsExtractOf(ir.ReturnResult(r, 1), call, 1) && ir.IsExtractOf(ir.ReturnResult(r, 0), call, 0) {
				tail = true
			}
			if last == 0 && nres == 1 && ir.ReturnResult(r, 0) == ssa.Value(call) {
				tail = true
			}
		}
		if tail {
			c.Pass("ERR.propagate", f, "encoder error propagates", call.Pos(), "result returned as is")
			return
		}
		propagated := false
		for _, r := range ir.Returns(f) {
			if len(r.Results) != last+1 || !isErrOf(ir.ReturnResult(r, last)) {
				continue
			}
			if ir.ProvesNonNil(ir.CondsAt(r.Block()), isErrOf) {
				propagated = true
			}
		}
		// and the err != nil edge must lead only to that return
		var errIf *ssa.If
		var errVals []ssa.Value
		if nres == 1 {
			errVals = append(errVals, call)
		} else {
			for _, ref := range *call.Referrers() {
				if e, ok := ref.(*ssa.Extract); ok && e.Index == nres-1 {
					errVals = append(errVals, e)
				}
			}
		}
		for _, ev := range errVals {
			for _, r2 := range *ev.Referrers() {
				if bo, ok := r2.(*ssa.BinOp); ok {
					for _, r3 := range *bo.Referrers() {
						if iff, ok := r3.(*ssa.If); ok {
							errIf = iff
						}
					}
				}
			}
		}
		edgeOK := false
		if errIf != nil {
			_, eq, _ := ir.NilCompare(errIf.Cond)
			succ := errIf.Block().Succs[0]
			if eq {
				succ = errIf.Block().Succs[1]
			}
			if len(succ.Instrs) > 0 {
				if r, ok := succ.Instrs[len(succ.Instrs)-1].(*ssa.Return); ok && len(r.Results) == last+1 && isErrOf(ir.ReturnResult(r, last)) {
					edgeOK = true
				}
			}
		}
		if !(propagated && edgeOK) {
			// the error may be collected in a variable and returned at a shared exit (or returned
			// unconditionally, nil or not): then on every path that is feasible when the call
			// failed, what the function returns as its error is that very error
			allRet, nRet := true, 0
			complete := ir.WalkNilPathsKnowing(call.Block(), isErrOf, func(path []*ssa.BasicBlock, resolve func(ssa.Value) ssa.Value) bool {
				b := path[len(path)-1]
				r, isRet := b.Instrs[len(b.Instrs)-1].(*ssa.Return)
				if !isRet {
					return true
				}
				nRet++
				if len(r.Results) != last+1 || !isErrOf(ir.NormCell(resolve(ir.ReturnResult(r, last)))) {
					allRet = false
				}
				return false
			})
			if complete && allRet && nRet > 0 {
				propagated, edgeOK = true, true
			}
		}
		c.Check(propagated && edgeOK, "ERR.propagate", f, "encoder error propagates", call.Pos(), "on the err != nil edge the encoder returns that error immediately", "an encoding error inside the encoder is not returned on its err != nil edge (skipped or swallowed): the output could be a malformed message")
	})
}

// ruleRawFields: C13-D3: P/R/ID of messages built by the library are JSON by construction.
func ruleRawFields(c *chk.Ctx) {
	encs := encoderFuncs(c)
	_ = encs
	safe := func(v ssa.Value) (bool, string) {
		var bad []string
		stop := func(x ssa.Value) bool {
			if u, ok := x.(*ssa.UnOp); ok && u.Op == token.MUL {
				if fa, ok := u.X.(*ssa.FieldAddr); ok {
					switch ir.FieldVar(fa) {
					case c.M.JID, c.M.JP, c.M.JR, c.M.QID, c.M.QParams, c.M.TVal, c.M.RResult:
						return true
					}
					if ir.FieldVar(fa).Name() == "Params" || ir.FieldVar(fa).Name() == "ID" {
						return true
					}
				}
			}
			if e, ok := x.(*ssa.Extract); ok {
				if call, ok := e.Tuple.(*ssa.Call); ok && ir.IsCallTo(&call.Call, "encoding/json.Marshal") {
					return true
				}
			}
			if call, ok := x.(*ssa.Call); ok && intFormatArg(call) >= 0 {
				return true
			}
			return false
		}
		for _, src := range c.P.SourcesStop(v, stop) {
			switch x := src.(type) {
			case *ssa.Const:
				if x.IsNil() {
					continue
				}
				if s, ok := constString(x); ok && (s == "null" || s == "") {
					continue
				}
				bad = append(bad, "constant "+x.String())
			case *ssa.Extract:
				if call, ok := x.Tuple.(*ssa.Call); ok && ir.IsCallTo(&call.Call, "encoding/json.Marshal") && x.Index == 0 {
					continue
				}
				bad = append(bad, "extract "+x.String())
			case *ssa.Call:
				if intFormatArg(x) >= 0 {
					continue
				}
				bad = append(bad, "call "+ir.CalleeName(&x.Call))
			case *ssa.UnOp:
				if stop(x) {
					continue // another raw field that holds JSON by the same rule, or the peer's own token
				}
				bad = append(bad, "load "+x.String())
			case *ssa.Parameter:
				// the id string handed to a watcher: checked at registration (TOKEN.register)
				if x.Type().String() == "string" {
					continue
				}
				bad = append(bad, "parameter "+x.Name())
			default:
				bad = append(bad, fmt.Sprintf("%T", src))
			}
		}
		if len(bad) == 0 {
			return true, "json.Marshal result, FormatInt, null/nil, or a raw field that holds JSON by the same rule"
		}
		return false, strings.Join(bad, "; ")
	}
	n := 0
	for _, f := range pkgFuncs(c, c.M.Pkg) {
		ir.Instrs(f, func(ins ssa.Instruction) {
			st, ok := ins.(*ssa.Store)
			if !ok {
				return
			}
			fa, ok := st.Addr.(*ssa.FieldAddr)
			if !ok || ir.FieldOwner(fa) != c.M.Jmessage {
				return
			}
			fv := ir.FieldVar(fa)
			if fv != c.M.JP && fv != c.M.JR && fv != c.M.JID {
				return
			}
			// the parser stores the peer's own tokens (map values): skip stores inside jmessage's own methods that parse
			if ir.RecvNamed(f) == c.M.Jmessage || fromDecodedObject(c, st.Val) {
				return
			}
			n++
			ok2, why := safe(st.Val)
			c.Check(ok2, "PROV.raw", f, "raw field "+fv.Name()+" of an outbound message", st.Pos(), why, "raw field "+fv.Name()+" of a message the library builds may hold bytes that are not compact JSON: "+why)
		})
	}
	if n < 8 {
		c.Undecided("PROV.raw", nil, "raw field stores", 0, "found %d stores into raw message fields (confirmed by hand: ≥ 8)", n)
	}
}

// ruleMarshalErrorsChecked: C13-D4: results of json.Marshal / encoders are never used with their error dropped.
func ruleMarshalErrorsChecked(c *chk.Ctx) {
	encs := encoderFuncs(c)
	n := 0
	for _, f := range c.P.Funcs {
		ir.Instrs(f, func(ins ssa.Instruction) {
			call, ok := ins.(*ssa.Call)
			if !ok {
				return
			}
			isMarshal := ir.IsCallTo(&call.Call, "encoding/json.Marshal")
			isEnc := call.Call.StaticCallee() != nil && encs[call.Call.StaticCallee()]
			if !isMarshal && !isEnc {
				return
			}
			n++
			var e0, e1 *ssa.Extract
			for _, ref := range *call.Referrers() {
				if e, ok := ref.(*ssa.Extract); ok {
					if e.Index == 0 {
						e0 = e
					} else {
						e1 = e
					}
				}
			}
			if e0 == nil || len(*e0.Referrers()) == 0 {
				return
			}
			// tail return of the pair is fine
			tail := false
			for _, r := range ir.Returns(f) {
				if len(r.Results) == 2 {
					v0 := ir.ReturnResult(r, 0)
					if ct, ok := v0.(*ssa.ChangeType); ok {
						v0 = ct.X
					}
					if v0 == ssa.Value(e0) && ir.IsExtractOf(ir.ReturnResult(r, 1), call, 1) {
						tail = true
					}
				}
			}
			used := e1 != nil && len(*e1.Referrers()) > 0
			// named-result idiom: `rsp.R, err = json.Marshal(v)` followed by a check of err
			c.Check(tail || used, "ERR.checked", f, "marshal error not dropped", call.Pos(), "the error result is checked or returned together with the bytes", "the bytes of "+ir.CalleeName(&call.Call)+" are used but its error is discarded: invalid or empty output would be transmitted")
		})
	}
	if n < 10 {
		c.Undecided("ERR.checked", nil, "marshal call sites", 0, "found %d marshal/encoder call sites (confirmed by hand: ≥ 10)", n)
	}
}

// ruleParseRequests: C13-D5.
func ruleParseRequests(c *chk.Ctx) {
	pr := c.M.Func(c.M.Pkg, "ParseRequests")
	if pr == nil {
		c.Undecided("TABLE.parsereq", nil, "ParseRequests", 0, "not found")
		return
	}
	// same list parser as the server's reader
	var readerParser, prParser *ssa.Function
	if rd, _ := readerOf(c, "server"); rd != nil {
		c.P.ExtCalls(rd, func(ci ssa.CallInstruction) {
			if g := ci.Common().StaticCallee(); g != nil && isListParser(c, g) {
				readerParser = g
			}
		})
	}
	ir.Calls(pr, func(ci ssa.CallInstruction) {
		if g := ci.Common().StaticCallee(); g != nil && isListParser(c, g) {
			prParser = g
		}
	})
	c.Check(readerParser != nil && readerParser == prParser, "TABLE.parsereq", pr, "same parser as the server", pr.Pos(), "ParseRequests calls the message-list parser the server's reader calls", "ParseRequests does not use the server's message-list parser")
	// top-level error only from the envelope parse; out[i] built from reqs[i]
	for _, r := range ir.Returns(pr) {
		ev := ir.ReturnResult(r, 1)
		if ir.IsNilConst(ev) {
			continue
		}
		fromParser := false
		if call, ok := ir.NormCell(ev).(*ssa.Call); ok && call.Call.StaticCallee() == prParser {
			fromParser = true
		}
		for _, src := range c.P.Sources(ev) {
			if call, ok := src.(*ssa.Call); ok && call.Call.StaticCallee() == prParser {
				fromParser = true
			} else if k, ok := src.(*ssa.Const); ok && k.IsNil() {
				continue
			} else {
				fromParser = fromParser || false
			}
		}
		okRet := fromParser || isAlwaysNilCell(ev)
		c.Check(okRet, "TABLE.parsereq", pr, "top-level error only from the envelope parse", r.Pos(), "the error result is the envelope parser's error (or a never-assigned nil)", "ParseRequests can report a top-level error that is not the envelope parser's")
	}
	// element construction: Error ← member's deferred error, same index
	okIdx, okErr := false, false
	ir.Instrs(pr, func(ins ssa.Instruction) {
		st, ok := ins.(*ssa.Store)
		if !ok {
			return
		}
		if ia, ok := st.Addr.(*ssa.IndexAddr); ok {
			// out[i] = &ParsedRequest{...} where the literal reads reqs[i]; the literal may be
			// built by a private helper of the member, which is then reqs[i] at the call
			al, _ := st.Val.(*ssa.Alloc)
			var viaCall *ssa.Call
			if call, isCall := st.Val.(*ssa.Call); isCall && al == nil {
				if g := call.Call.StaticCallee(); g != nil && c.P.InRepo[g] && !ir.Exported(g) && len(g.Blocks) > 0 {
					rets := ir.Returns(g)
					if len(rets) == 1 && len(rets[0].Results) == 1 {
						al, _ = rets[0].Results[0].(*ssa.Alloc)
						viaCall = call
					}
				}
			}
			if al == nil {
				return
			}
			for _, ref := range *al.Referrers() {
				fa, ok := ref.(*ssa.FieldAddr)
				if !ok {
					continue
				}
				for _, r2 := range *fa.Referrers() {
					s2, ok := r2.(*ssa.Store)
					if !ok {
						continue
					}
					if ld, isLd := s2.Val.(*ssa.UnOp); ir.FieldVar(fa).Name() == "Error" && isLd && chk.LoadsField(s2.Val, c.M.JErr) {
						src := ld.X.(*ssa.FieldAddr).X
						if viaCall != nil {
							prm, isP := src.(*ssa.Parameter)
							if !isP {
								continue
							}
							src = nil
							for k, q := range prm.Parent().Params {
								if q == prm && k < len(viaCall.Call.Args) {
									src = viaCall.Call.Args[k]
								}
							}
						}
						if ld, ok := src.(*ssa.UnOp); ok {
							if ia2, ok := ld.X.(*ssa.IndexAddr); ok && ia2.Index == ia.Index {
								okIdx = true
							}
							// (or the entries are appended, one per member and unconditionally, in
							// the loop over the members: the i-th append is member i's)
							if ia2, ok := ld.X.(*ssa.IndexAddr); ok {
								if arr, isArr := ia.X.(*ssa.Alloc); isArr && ir.InCycle(st.Block()) && st.Block() == ia2.Block() {
									if at, isAT := arr.Type().(*types.Pointer).Elem().Underlying().(*types.Array); isAT && at.Len() == 1 {
										appended := false
										for _, ar := range *arr.Referrers() {
											if sl, isSl := ar.(*ssa.Slice); isSl {
												for _, sr := range *sl.Referrers() {
													if ac, isCall := sr.(*ssa.Call); isCall {
														if b, isB := ac.Call.Value.(*ssa.Builtin); isB && b.Name() == "append" && ac.Block() == st.Block() {
															appended = true
														}
													}
												}
											}
										}
										if appended {
											okIdx = true
										}
									}
								}
							}
						}
						okErr = true
					}
				}
			}
		}
	})
	c.Check(okErr && okIdx, "TABLE.parsereq", pr, "entry i built from member i", pr.Pos(), "out[i].Error ← member[i]'s deferred validation error (same index)", "the parsed entries are not built index-for-index from the members with their deferred errors")
	// ToRequest returns nil when Error != nil
	for _, f := range pkgFuncs(c, c.M.Pkg) {
		if ir.BaseName(f) != "ToRequest" || f.Parent() != nil {
			continue
		}
		okNil := false
		for _, r := range ir.Returns(f) {
			if !ir.IsNilConst(ir.ReturnResult(r, 0)) {
				// a non-nil return must be on the Error == nil edge
				good := false
				for _, cd := range ir.CondsAt(r.Block()) {
					if x, eq, ok := ir.NilCompare(cd.V); ok && eq == cd.Truth {
						if u, ok := x.(*ssa.UnOp); ok {
							if fa, ok := u.X.(*ssa.FieldAddr); ok && ir.FieldVar(fa).Name() == "Error" {
								good = true
							}
						}
					}
				}
				okNil = good
			}
		}
		c.Check(okNil, "TABLE.parsereq", f, "ToRequest refuses invalid entries", f.Pos(), "a Request is produced only on the Error == nil edge", "ToRequest can turn a structurally invalid entry into a Request")
	}
}

func isAlwaysNilCell(v ssa.Value) bool {
	u, ok := v.(*ssa.UnOp)
	if !ok {
		return false
	}
	al, ok := u.X.(*ssa.Alloc)
	if !ok {
		return false
	}
	for _, st := range ir.CellStores(al) {
		if !ir.IsNilConst(st.Val) {
			return false
		}
	}
	return true
}

// ---------------------------------------------------------------------------
// C14

// ruleNoReceiverWrites: the method never writes memory reachable from its receiver.
func ruleNoReceiverWrites(c *chk.Ctx, f *ssa.Function, rule, what string) {
	if f == nil || len(f.Params) == 0 {
		c.Undecided(rule, nil, what, 0, "method not found")
		return
	}
	recv := f.Params[0]
	// taint: pointers into the receiver object, and values (slices) that alias its memory
	ptr := map[ssa.Value]bool{recv: true} // addresses inside the receiver object
	alias := map[ssa.Value]bool{}         // slice/map/pointer values loaded from the receiver (share backing store)
	copies := map[ssa.Value]bool{}        // local structs holding a shallow copy of the receiver
	changed := true
	for changed {
		changed = false
		mark := func(m map[ssa.Value]bool, v ssa.Value) {
			if !m[v] {
				m[v] = true
				changed = true
			}
		}
		ir.Instrs(f, func(ins ssa.Instruction) {
			switch x := ins.(type) {
			case *ssa.FieldAddr:
				if ptr[x.X] {
					mark(ptr, x)
				}
				if copies[x.X] {
					mark(copies, x) // address inside the shallow copy
				}
			case *ssa.IndexAddr:
				if ptr[x.X] || alias[x.X] {
					mark(ptr, x)
				}
			case *ssa.UnOp:
				if x.Op == token.MUL && (ptr[x.X] || copies[x.X]) {
					switch x.Type().Underlying().(type) {
					case *types.Slice, *types.Map, *types.Pointer:
						mark(alias, x)
					case *types.Struct:
						mark(alias, x) // struct value carrying aliasing fields
					}
				}
			case *ssa.Store:
				if alias[x.Val] {
					if al, ok := x.Addr.(*ssa.Alloc); ok {
						mark(copies, al)
					}
				}
			case *ssa.Slice:
				if alias[x.X] || ptr[x.X] {
					mark(alias, x)
				}
			case *ssa.ChangeType:
				if alias[x.X] {
					mark(alias, x)
				}
			case *ssa.Convert:
				if alias[x.X] {
					if _, isSlice := x.Type().Underlying().(*types.Slice); isSlice {
						mark(alias, x)
					}
				}
			case *ssa.Phi:
				for _, e := range x.Edges {
					if alias[e] {
						mark(alias, x)
					}
					if ptr[e] {
						mark(ptr, x)
					}
				}
			}
		})
	}
	bad := ""
	ir.Instrs(f, func(ins ssa.Instruction) {
		switch x := ins.(type) {
		case *ssa.Store:
			if ptr[x.Addr] && x.Addr != ssa.Value(recv) {
				bad = "stores into the receiver at " + c.P.Pos(x.Pos())
			}
		case *ssa.Call:
			if b, ok := x.Call.Value.(*ssa.Builtin); ok {
				if (b.Name() == "append" || b.Name() == "copy") && len(x.Call.Args) > 0 && alias[x.Call.Args[0]] {
					bad = b.Name() + " into a slice that shares the receiver's backing array at " + c.P.Pos(x.Pos())
				}
			} else {
				for _, a := range x.Call.Args {
					if a == ssa.Value(recv) && x.Call.StaticCallee() != nil && c.P.InRepo[x.Call.StaticCallee()] && x.Call.StaticCallee() != f {
						// passing the receiver on: the callee must be clean too (one level)
					}
				}
			}
		case *ssa.MapUpdate:
			if alias[x.Map] {
				bad = "updates a map owned by the receiver at " + c.P.Pos(x.Pos())
			}
		}
	})
	c.Check(bad == "", rule, f, what, f.Pos(), "no store, append, copy or map update reaches memory owned by the receiver", "the method "+bad+": it modifies its receiver")
}

// ruleErrCodeAccessors: C14-D2.
func ruleErrCodeAccessors(c *chk.Ctx) {
	n := 0
	for _, f := range pkgFuncs(c, c.M.Pkg) {
		if f.Parent() != nil || ir.BaseName(f) != "ErrCode" || f.Synthetic != "" {
			continue
		}
		n++
		ok := true
		for _, r := range ir.Returns(f) {
			v := ir.ReturnResult(r, 0)
			if cv, isC := v.(*ssa.Convert); isC {
				v = cv.X
			}
			if ct, isC := v.(*ssa.ChangeType); isC {
				v = ct.X
			}
			switch x := v.(type) {
			case *ssa.Parameter:
			case *ssa.UnOp:
				if _, isFA := x.X.(*ssa.FieldAddr); !isFA {
					ok = false
				}
			case *ssa.Field:
			default:
				ok = false
			}
		}
		c.Check(ok, "TABLE.errcode", f, "ErrCode returns the receiver's code", f.Pos(), "identity accessor (conversion / field load of the receiver only)", "ErrCode does not return its receiver's code unchanged: ErrorCode(c.Err()) == c would fail")
	}
	if n < 2 {
		c.Undecided("TABLE.errcode", nil, "ErrCode methods", 0, "found %d ErrCode methods (want 2)", n)
	}
	// Code.Err: nil exactly for NoError, the wrapper otherwise
	noErr, _ := pkgConstInt(c.M.Pkg, "NoError")
	for _, f := range pkgFuncs(c, c.M.Pkg) {
		if f.Parent() != nil || ir.BaseName(f) != "Err" || f.Signature.Recv() == nil || !strings.HasSuffix(f.Signature.Recv().Type().String(), ".Code") {
			continue
		}
		okNil, okWrap := false, false
		allWrap := true
		for _, r := range ir.Returns(f) {
			v := ir.ReturnResult(r, 0)
			// every non-nil result is the receiver itself (whatever its value: undefined codes of
			// the reserved range included)
			if !ir.IsNilConst(v) {
				isRecv := false
				if mi, ok := v.(*ssa.MakeInterface); ok {
					inner := mi.X
					if cv, ok := inner.(*ssa.ChangeType); ok {
						inner = cv.X
					}
					if cv, ok := inner.(*ssa.Convert); ok {
						inner = cv.X
					}
					if _, isP := inner.(*ssa.Parameter); isP {
						isRecv = true
					}
				}
				if !isRecv {
					allWrap = false
				}
			}
			isNoErrEdge, truth := false, false
			for _, cd := range ir.CondsAt(r.Block()) {
				if x, y, op, ok := ir.Rel(cd); ok && (op == token.EQL || op == token.NEQ) {
					k, isC := ir.ConstInt(y)
					if !isC {
						k, isC = ir.ConstInt(x)
					}
					if isC && k == noErr {
						isNoErrEdge, truth = true, op == token.EQL
					}
				}
			}
			if ir.IsNilConst(v) && isNoErrEdge && truth {
				okNil = true
			}
			if mi, ok := v.(*ssa.MakeInterface); ok && isNoErrEdge && !truth {
				if cv, ok := mi.X.(*ssa.ChangeType); ok {
					if _, isP := cv.X.(*ssa.Parameter); isP {
						okWrap = true
					}
				}
				if cv, ok := mi.X.(*ssa.Convert); ok {
					if _, isP := cv.X.(*ssa.Parameter); isP {
						okWrap = true
					}
				}
			}
		}
		c.Check(okNil && okWrap && allWrap, "TABLE.errcode", f, "Code.Err", f.Pos(), "nil exactly for NoError; otherwise the receiver itself wrapped as an error", "Code.Err does not return nil exactly for NoError and the unchanged code otherwise")
	}
}

// ruleErrorCodeOrder: C14-D3: the decision list of ErrorCode.
func ruleErrorCodeOrder(c *chk.Ctx) {
	f := c.M.Func(c.M.Pkg, "ErrorCode")
	if f == nil {
		c.Undecided("TABLE.classify", nil, "ErrorCode", 0, "not found")
		return
	}
	name := func(k int64) string {
		for _, n := range []string{"NoError", "SystemError", "Cancelled", "DeadlineExceeded"} {
			if v, ok := pkgConstInt(c.M.Pkg, n); ok && v == k {
				return n
			}
		}
		return fmt.Sprint(k)
	}
	var rows []string
	type row struct {
		val   ssa.Value
		conds []ir.Cond
		extra []string // outcomes already rendered (a table-driven loop unrolled)
	}
	var raw []row
	loops := map[*ssa.Function]*ir.TableLoop{}
	for _, r := range effectiveReturns(c, f, 0) {
		v := ir.ReturnResult(r, 0)
		conds := c.P.CondsWithin(r, f)
		// `for _, e := range table { if errors.Is(err, e.target) { return e.code } }` over a
		// package-level table of constants is the chain of tests it unrolls to, in table order
		tl, seen := loops[r.Parent()]
		if !seen {
			tl = c.P.FindTableLoop(r.Parent())
			loops[r.Parent()] = tl
		}
		if tl != nil {
			var rest []ir.Cond
			target := -1
			for _, cd := range conds {
				if tl.IsIndexCond(cd) {
					continue
				}
				if call, ok := cd.V.(*ssa.Call); ok && cd.Truth && ir.IsCallTo(&call.Call, "errors.Is") {
					if k, isF := tl.Field(call.Call.Args[1]); isF {
						target = k
						continue
					}
				}
				rest = append(rest, cd)
			}
			isName := func(i, k int) string {
				if g := globalLoad(tl.Rows[i][k]); g != nil {
					return "Is(" + g.Name() + ")"
				}
				return "Is(?)"
			}
			if fk, isF := tl.Field(v); isF && target >= 0 {
				for i := range tl.Rows {
					extra := []string{isName(i, target)}
					for j := 0; j < i; j++ {
						extra = append(extra, "¬"+isName(j, target))
					}
					raw = append(raw, row{tl.Rows[i][fk], rest, extra})
				}
				continue
			}
			if tl.Done.Dominates(r.Block()) {
				// which field the loop tests: the errors.Is in its body
				tf := -1
				for _, ins := range tl.Body.Instrs {
					if call, ok := ins.(*ssa.Call); ok && ir.IsCallTo(&call.Call, "errors.Is") {
						if k, isF := tl.Field(call.Call.Args[1]); isF {
							tf = k
						}
					}
				}
				if tf >= 0 {
					var extra []string
					for j := range tl.Rows {
						extra = append(extra, "¬"+isName(j, tf))
					}
					raw = append(raw, row{v, rest, extra})
					continue
				}
			}
		}
		// `code, ok := h(err); if ok { return code }`: the value is what h returns where ok is true
		if e, isE := v.(*ssa.Extract); isE {
			if call, isCall := e.Tuple.(*ssa.Call); isCall {
				if h := call.Call.StaticCallee(); h != nil && c.P.InRepo[h] && !ir.Exported(h) {
					done := false
					for ci, cd := range conds {
						fe, isFE := cd.V.(*ssa.Extract)
						if !isFE || fe.Tuple != e.Tuple || fe.Index == e.Index {
							continue
						}
						rest := append(append([]ir.Cond{}, conds[:ci]...), conds[ci+1:]...)
						for _, r2 := range ir.Returns(h) {
							k, isK := ir.ReturnResult(r2, fe.Index).(*ssa.Const)
							if !isK || k.Value == nil || (k.Value.String() == "true") != cd.Truth {
								continue
							}
							raw = append(raw, row{ir.ReturnResult(r2, e.Index), append(append([]ir.Cond{}, rest...), ir.CondsAt(r2.Block())...), nil})
							done = true
						}
						break
					}
					if done {
						continue
					}
				}
			}
		}
		raw = append(raw, row{v, conds, nil})
	}
	isErrPred := func(cd ir.Cond) bool {
		call, ok := cd.V.(*ssa.Call)
		return ok && ir.IsCallTo(&call.Call, "errors.As", "errors.Is")
	}
	for _, rw := range raw {
		v := rw.val
		res := "?"
		if k, isC := ir.ConstInt(v); isC {
			res = name(k)
		} else if call, ok := v.(*ssa.Call); ok && call.Call.IsInvoke() && call.Call.Method.Name() == "ErrCode" {
			res = "coder.ErrCode()"
		}
		for _, alt := range expandPredicateHelpersKeep(c, rw.conds, 0, isErrPred) {
			var conds []string
			for _, cd := range dedupConds(alt) {
				d := "?"
				if x, eq, ok := ir.NilCompare(cd.V); ok {
					if _, isP := c.P.Canon(x).(*ssa.Parameter); isP {
						d = "err==nil"
						if !eq {
							d = "err!=nil"
						}
					}
				}
				if call, ok := cd.V.(*ssa.Call); ok {
					if ir.IsCallTo(&call.Call, "errors.As") {
						d = "As(ErrCoder)"
					} else if ir.IsCallTo(&call.Call, "errors.Is") {
						if g := globalLoad(call.Call.Args[1]); g != nil {
							d = "Is(" + g.Name() + ")"
						}
					}
				}
				if !cd.Truth {
					d = "¬" + d
				}
				conds = append(conds, d)
			}
			conds = append(conds, rw.extra...)
			sort.Strings(conds)
			conds = dedupStrings(conds)
			rows = append(rows, res+" ⇐ "+strings.Join(conds, " ∧ "))
		}
	}
	sort.Strings(rows)
	want := []string{
		"Cancelled ⇐ Is(Canceled) ∧ ¬As(ErrCoder) ∧ ¬err==nil",
		"DeadlineExceeded ⇐ Is(DeadlineExceeded) ∧ ¬As(ErrCoder) ∧ ¬Is(Canceled) ∧ ¬err==nil",
		"NoError ⇐ err==nil",
		"SystemError ⇐ ¬As(ErrCoder) ∧ ¬Is(Canceled) ∧ ¬Is(DeadlineExceeded) ∧ ¬err==nil",
		"coder.ErrCode() ⇐ As(ErrCoder) ∧ ¬err==nil",
	}
	sort.Strings(want)
	ok := strings.Join(rows, " | ") == strings.Join(want, " | ")
	c.Check(ok, "TABLE.classify", f, "classification precedence", f.Pos(), "nil → NoError; ErrCoder → its code; Canceled → Cancelled; DeadlineExceeded → DeadlineExceeded; else SystemError, in that order",
		"ErrorCode's decision list is ["+strings.Join(rows, " | ")+"], not the documented precedence")
}

// ruleServerErrorMapping: C14-D4 (error member of the response) and D6.
func ruleServerErrorMapping(c *chk.Ctx, d *dispatchModel) {
	f := d.responses
	// the values that can become the error member: stores into it, looking through private
	// helpers that compute the stored value and through phis (with the outcomes on each edge)
	type assign struct {
		val   ssa.Value
		conds []ir.Cond
		pos   token.Pos
	}
	var assigns []assign
	var expand func(v ssa.Value, conds []ir.Cond, pos token.Pos, depth int)
	expand = func(v ssa.Value, conds []ir.Cond, pos token.Pos, depth int) {
		if depth > 4 {
			assigns = append(assigns, assign{v, conds, pos})
			return
		}
		switch x := v.(type) {
		case *ssa.Phi:
			for i, e := range x.Edges {
				expand(e, append(append([]ir.Cond{}, conds...), ir.EdgeConds(x.Block().Preds[i], x.Block())...), pos, depth+1)
			}
			return
		case *ssa.Call:
			if g := x.Call.StaticCallee(); g != nil && c.P.InRepo[g] && c.P.InExt(f, g) && g.Signature.Results().Len() == 1 {
				for _, r := range ir.Returns(g) {
					expand(ir.ReturnResult(r, 0), append(append([]ir.Cond{}, conds...), ir.CondsAt(r.Block())...), r.Pos(), depth+1)
				}
				return
			}
		case *ssa.Extract:
			// one result of a private "outcome" helper (result bytes, error object)
			if call, isCall := x.Tuple.(*ssa.Call); isCall {
				if g := call.Call.StaticCallee(); g != nil && c.P.InRepo[g] && c.P.InExt(f, g) && x.Index < g.Signature.Results().Len() {
					for _, r := range ir.Returns(g) {
						expand(ir.ReturnResult(r, x.Index), append(append([]ir.Cond{}, conds...), ir.CondsAt(r.Block())...), r.Pos(), depth+1)
					}
					return
				}
			}
		case *ssa.Const:
			if x.IsNil() && depth > 0 {
				return // the helper's "no error" result: no error member
			}
		}
		assigns = append(assigns, assign{v, conds, pos})
	}
	c.P.ExtInstrs(f, func(ins ssa.Instruction) {
		st, ok := ins.(*ssa.Store)
		if !ok || !chk.IsField(st.Addr, c.M.JE) {
			return
		}
		expand(st.Val, ir.CondsAt(st.Block()), st.Pos(), 0)
	})
	n := 0
	for _, a := range assigns {
		n++
		switch x := a.val.(type) {
		case *ssa.Extract:
			ta, ok := x.Tuple.(*ssa.TypeAssert)
			_, fv, isTask := taskFieldLoad(c, taOperand(ta))
			c.Check(ok && x.Index == 0 && isTask && fv == c.M.TErr, "PROV.errmap", f, "*Error forwarded by identity", a.pos, "the error member is task.err itself when it is an *Error (type assertion, no unwrapping)", "an *Error is not forwarded by identity from task.err")
		case *ssa.Alloc:
			// &Error{Code: c, Message: err.Error()}
			var msgOK bool
			var detail []string
			codeSrc, codeBad := 0, false
			for _, ref := range *x.Referrers() {
				fa, ok := ref.(*ssa.FieldAddr)
				if !ok {
					continue
				}
				for _, r2 := range *fa.Referrers() {
					s2, ok := r2.(*ssa.Store)
					if !ok {
						continue
					}
					switch ir.FieldVar(fa).Name() {
					case "Code":
						// every value the code can take: ErrorCode(task.err), or InternalError on the
						// edge where that code is NoError
						var codes []assign
						var ex func(v ssa.Value, conds []ir.Cond, depth int)
						ex = func(v ssa.Value, conds []ir.Cond, depth int) {
							v = ir.NormCell(v)
							if phi, ok := v.(*ssa.Phi); ok && depth < 4 {
								for i, e := range phi.Edges {
									ex(e, append(append([]ir.Cond{}, conds...), ir.EdgeConds(phi.Block().Preds[i], phi.Block())...), depth+1)
								}
								return
							}
							codes = append(codes, assign{v, conds, s2.Pos()})
						}
						ex(s2.Val, append(append([]ir.Cond{}, a.conds...), ir.CondsAt(s2.Block())...), 0)
						for _, cv := range codes {
							if call, ok := cv.val.(*ssa.Call); ok && call.Call.StaticCallee() != nil && ir.BaseName(call.Call.StaticCallee()) == "ErrorCode" {
								if _, fv, ok := taskFieldLoad(c, call.Call.Args[0]); ok && fv == c.M.TErr {
									codeSrc++
									detail = append(detail, "Code=ErrorCode(task.err)")
									continue
								}
							}
							if k, isC := ir.ConstInt(cv.val); isC {
								internal, _ := pkgConstInt(c.M.Pkg, "InternalError")
								noErr, _ := pkgConstInt(c.M.Pkg, "NoError")
								onNoErr := false
								for _, cd := range cv.conds {
									if bo, ok := cd.V.(*ssa.BinOp); ok {
										if kk, isC := ir.ConstInt(bo.Y); isC && kk == noErr && ((bo.Op == token.NEQ && !cd.Truth) || (bo.Op == token.EQL && cd.Truth)) {
											onNoErr = true
										}
									}
								}
								if k == internal && onNoErr {
									codeSrc++
									detail = append(detail, "Code=InternalError on the NoError edge")
									continue
								}
							}
							codeBad = true
						}
					case "Message":
						if call, ok := s2.Val.(*ssa.Call); ok && call.Call.IsInvoke() && call.Call.Method.Name() == "Error" {
							if _, fv, ok := taskFieldLoad(c, call.Call.Value); ok && fv == c.M.TErr {
								msgOK = true
							}
						}
					}
				}
			}
			c.Check(codeSrc > 0 && !codeBad && msgOK, "PROV.errmap", f, "other errors mapped by ErrorCode", a.pos, strings.Join(detail, ", ")+", Message=task.err.Error()", "a non-*Error handler error is not mapped with Code = ErrorCode(task.err) and Message = task.err.Error()")
		default:
			c.Fail("PROV.errmap", f, "error member", a.pos, "the error member has an unrecognised source (%T): an *Error must be forwarded by identity from task.err (no errors.As unwrapping, which would disagree with ErrorCode's precedence)", a.val)
		}
	}
	hasIdentity, nAlloc := false, 0
	for _, a := range assigns {
		switch a.val.(type) {
		case *ssa.Extract:
			hasIdentity = true
		case *ssa.Alloc:
			nAlloc++
		}
	}
	if !hasIdentity || nAlloc == 0 {
		c.Undecided("PROV.errmap", f, "error member stores", f.Pos(), "found %d assignments to the error member (want the *Error-by-identity case and at least one mapped case)", n)
	}
	ruleInvokeResultsMarshalled(c, d)
}

// ruleInvokeResultsMarshalled: C14-D6 / C10-D4 / C13-D3.
func ruleInvokeResultsMarshalled(c *chk.Ctx, d *dispatchModel) {
	// D6: every result the invoke function returns is json.Marshal's (bytes, error) pair, unmodified
	okPair, n := true, 0
	var bad string
	for _, r := range invokeOutcomes(c, d) {
		v0 := r.val
		if v0 != nil && ir.IsNilConst(v0) {
			continue
		}
		n++
		if ct, ok := v0.(*ssa.ChangeType); ok {
			v0 = ct.X
		}
		good := false
		if e, ok := v0.(*ssa.Extract); ok && e.Index == 0 && r.err != nil {
			if call, ok := e.Tuple.(*ssa.Call); ok && ir.IsCallTo(&call.Call, "encoding/json.Marshal") && ir.IsExtractOf(r.err, call, 1) {
				good = true
			}
		}
		if !good {
			okPair = false
			bad = c.P.Pos(r.at.Pos())
		}
	}
	c.Check(okPair && n > 0, "PROV.errmap", d.invoke, "results are exactly json.Marshal's pair", d.invoke.Pos(), "every non-nil result of the invoke function is json.Marshal's (bytes, error) pair: an unmarshalable or invalid value becomes the call's error, never part of the reply", "the invoke function can return result bytes that did not come out of json.Marshal (at "+bad+"): a handler value that is not valid JSON would be spliced into the reply verbatim, or a marshal error lost")
}

func taOperand(ta *ssa.TypeAssert) ssa.Value {
	if ta == nil {
		return nil
	}
	return ta.X
}

// ruleClientErrorMapping: C14-D5.
func ruleClientErrorMapping(c *chk.Ctx) {
	// the settle function (receives from the slot): err ← raw.E, result ← raw.R
	var settle *ssa.Function
	var recv ssa.Value
	for _, f := range pkgFuncs(c, c.M.Pkg) {
		ir.Instrs(f, func(ins ssa.Instruction) {
			if u, _, ok := slotRecvAt(c, ins); ok {
				settle, recv = f, u
			}
		})
	}
	if settle == nil {
		c.Undecided("PROV.settle", nil, "settle", 0, "slot receiver not found")
		return
	}
	okE, okR := false, false
	c.P.ExtInstrs(settle, func(ins ssa.Instruction) {
		st, ok := ins.(*ssa.Store)
		if !ok {
			return
		}
		fromRaw := func(v ssa.Value, f *types.Var) bool {
			u, ok := v.(*ssa.UnOp)
			if !ok {
				return false
			}
			fa, ok := u.X.(*ssa.FieldAddr)
			if !ok || ir.FieldVar(fa) != f {
				return false
			}
			e, ok := c.P.Canon(fa.X).(*ssa.Extract)
			return ok && e.Tuple == recv && e.Index == 0
		}
		if chk.IsField(st.Addr, c.M.RErr) && fromRaw(st.Val, c.M.JE) {
			okE = true
		}
		if chk.IsField(st.Addr, c.M.RResult) && fromRaw(st.Val, c.M.JR) {
			okR = true
		}
	})
	c.Check(okE && okR, "PROV.settle", settle, "response settles with the received message", settle.Pos(), "Response.err ← received.E and Response.result ← received.R (identity)", "the Response does not settle with exactly the error and result of the received message")
	// Call/Callback return filterError(rsp.Error())
	n := 0
	for _, f := range pkgFuncs(c, c.M.Pkg) {
		if f.Parent() != nil || !ir.Exported(f) {
			continue
		}
		callsSettle := reachesCallee(c, f, settle, 2)
		if !callsSettle || f.Signature.Results().Len() != 2 || f.Signature.Results().At(1).Type().String() != "error" {
			continue
		}
		if _, isSlice := f.Signature.Results().At(0).Type().(*types.Slice); isSlice {
			continue
		}
		n++
		// some return yields the filtered error, and no return yields the peer's error unfiltered
		// (errors of other origin — marshalling, sending — may share the return)
		okFilter, leak := false, false
		fe := filterErrorFunc(c)
		isFilter := func(v ssa.Value) bool {
			call, ok := v.(*ssa.Call)
			return ok && fe != nil && call.Call.StaticCallee() == fe
		}
		isPeerErr := func(v ssa.Value) bool {
			if call, ok := v.(*ssa.Call); ok {
				if g := call.Call.StaticCallee(); g != nil && ir.RecvNamed(g) == c.M.Response && g.Signature.Results().Len() == 1 && strings.HasSuffix(g.Signature.Results().At(0).Type().String(), ".Error") {
					return true
				}
			}
			return chk.LoadsField(v, c.M.RErr)
		}
		for _, r := range ir.Returns(f) {
			for _, src := range c.P.SourcesStop(ir.ReturnResult(r, 1), func(v ssa.Value) bool { return isFilter(v) || isPeerErr(v) }) {
				if isFilter(src) {
					okFilter = true
				}
				if isPeerErr(src) {
					leak = true
				}
			}
		}
		okFilter = okFilter && !leak
		c.Check(okFilter, "PROV.settle", f, "errors returned through filterError", f.Pos(), "the peer's error is returned through filterError (context sentinels restored)", "the peer's error is returned without filterError: context.Canceled/DeadlineExceeded would not surface as such")
	}
	if n < 2 {
		c.Undecided("PROV.settle", nil, "Call/Callback", 0, "found %d single-response entry points (want 2)", n)
	}
}

// isListParser: method on *jmessages taking []byte and returning error.
func isListParser(c *chk.Ctx, g *ssa.Function) bool {
	sig := g.Signature
	if sig.Recv() == nil || sig.Params().Len() != 1 || sig.Params().At(0).Type().String() != "[]byte" || sig.Results().Len() != 1 {
		return false
	}
	p, ok := sig.Recv().Type().(*types.Pointer)
	return ok && isJmessagesType(c, p.Elem())
}

// ruleJSONWhitespace: the function that finds the first significant byte of
// a message (used to tell an array from a single value) skips at least the
// four JSON whitespace bytes — the same set encoding/json skips.
func ruleJSONWhitespace(c *chk.Ctx) {
	n := 0
	for _, pkg := range []*ssa.Package{c.M.Pkg, c.M.HandlerPkg} {
		for _, f := range pkgFuncs(c, pkg) {
			if f.Parent() != nil || f.Signature.Recv() != nil || f.Signature.Params().Len() != 1 || f.Signature.Results().Len() != 1 {
				continue
			}
			if f.Signature.Params().At(0).Type().String() != "[]byte" || f.Signature.Results().At(0).Type().String() != "byte" {
				continue
			}
			// is its result compared with '[' somewhere?
			used := false
			for _, s := range c.P.Callers(f) {
				if call, ok := s.Instr.(*ssa.Call); ok {
					for _, r := range *call.Referrers() {
						if bo, ok := r.(*ssa.BinOp); ok {
							if k, isC := ir.ConstInt(bo.Y); isC && k == '[' {
								used = true
							}
						}
					}
				}
			}
			if !used {
				continue
			}
			n++
			ok, why := false, ""
			seen := map[int64]bool{}
			ir.Instrs(f, func(ins ssa.Instruction) {
				if call, isCall := ins.(*ssa.Call); isCall && ir.IsCallTo(&call.Call, "bytes.TrimSpace") {
					ok, why = true, "bytes.TrimSpace (a superset of JSON whitespace)"
				}
				if call, isCall := ins.(*ssa.Call); isCall && ir.IsCallTo(&call.Call, "bytes.TrimLeft", "bytes.Trim") {
					if s, isS := constString(call.Call.Args[1]); isS && strings.ContainsRune(s, ' ') && strings.ContainsRune(s, '\t') && strings.ContainsRune(s, '\n') && strings.ContainsRune(s, '\r') {
						ok, why = true, "trims a cutset containing the four JSON whitespace bytes"
					}
				}
				if bo, isBo := ins.(*ssa.BinOp); isBo && (bo.Op == token.EQL || bo.Op == token.NEQ) {
					if k, isC := ir.ConstInt(bo.Y); isC {
						seen[k] = true
					}
				}
			})
			if !ok && seen[' '] && seen['\t'] && seen['\n'] && seen['\r'] {
				ok, why = true, "compares with all four JSON whitespace bytes"
			}
			c.Check(ok, "TABLE.space", f, "JSON whitespace skipped before the first byte", f.Pos(), why, "the first-byte scan does not skip all four JSON whitespace bytes (space, tab, LF, CR) that encoding/json skips: a valid array preceded by such a byte would be parsed as a single value")
		}
	}
	if n == 0 {
		c.Undecided("TABLE.space", nil, "first-byte scan", 0, "no first-significant-byte function found")
	}
}

// reachesCallee: f calls g, directly or through at most depth unexported repository functions.
func reachesCallee(c *chk.Ctx, f, g *ssa.Function, depth int) bool {
	found := false
	ir.Calls(f, func(ci ssa.CallInstruction) {
		h := ci.Common().StaticCallee()
		if h == nil || found {
			return
		}
		if h == g {
			found = true
			return
		}
		if depth > 0 && c.P.InRepo[h] && !ir.Exported(h) && h != f && reachesCallee(c, h, g, depth-1) {
			found = true
		}
	})
	return found
}

// errorsThroughFilter traces an error result back: through reports whether every
// non-nil source is a call of filterError, some whether there is such a call.
func errorsThroughFilter(c *chk.Ctx, ev ssa.Value) (through, some bool) {
	fe := filterErrorFunc(c)
	isFilter := func(v ssa.Value) bool {
		call, ok := v.(*ssa.Call)
		return ok && fe != nil && call.Call.StaticCallee() == fe
	}
	through = true
	for _, src := range c.P.SourcesStop(ev, isFilter) {
		switch {
		case isFilter(src):
			some = true
		case ir.IsNilConst(src):
		default:
			through = false
		}
	}
	return
}

// filterErrorFunc resolves, by signature, the function that turns a peer's
// *Error back into the error the caller sees: func(*Error) error.
func filterErrorFunc(c *chk.Ctx) *ssa.Function {
	var fe *ssa.Function
	for _, f := range pkgFuncs(c, c.M.Pkg) {
		if f.Parent() == nil && f.Signature.Recv() == nil && f.Signature.Params().Len() == 1 && f.Signature.Results().Len() == 1 &&
			f.Signature.Params().At(0).Type().String() == "*"+c.M.ErrorT.String() && f.Signature.Results().At(0).Type().String() == "error" {
			fe = f
		}
	}
	return fe
}

// fromDecodedObject: v is a value of a decoded member object — an element of a
// map[string]json.RawMessage obtained by ranging over it or by look-up —
// possibly handed on through parameters of private helpers.
func fromDecodedObject(c *chk.Ctx, v ssa.Value) bool {
	isElem := func(x ssa.Value) bool {
		switch y := x.(type) {
		case *ssa.Extract:
			if nx, ok := y.Tuple.(*ssa.Next); ok && !nx.IsString {
				if rg, ok := nx.Iter.(*ssa.Range); ok {
					if m, ok := rg.X.Type().Underlying().(*types.Map); ok {
						return strings.HasSuffix(m.Elem().String(), "json.RawMessage")
					}
				}
			}
			if lk, ok := y.Tuple.(*ssa.Lookup); ok {
				if m, ok := lk.X.Type().Underlying().(*types.Map); ok {
					return strings.HasSuffix(m.Elem().String(), "json.RawMessage")
				}
			}
		case *ssa.Lookup:
			if m, ok := y.X.Type().Underlying().(*types.Map); ok {
				return strings.HasSuffix(m.Elem().String(), "json.RawMessage")
			}
		}
		return false
	}
	// only direct flow (locals, parameters of private helpers) counts: a value read back from a
	// field of some message is that message's business
	viaField := func(x ssa.Value) bool {
		u, ok := x.(*ssa.UnOp)
		if !ok || u.Op != token.MUL {
			return false
		}
		_, isFA := u.X.(*ssa.FieldAddr)
		return isFA
	}
	for _, src := range c.P.SourcesStop(v, func(x ssa.Value) bool { return isElem(x) || viaField(x) }) {
		if isElem(src) {
			return true
		}
	}
	return false
}

// derivesFromParam: v is a parameter of its function, possibly converted,
// re-sliced or held in a local.
func derivesFromParam(v ssa.Value) bool {
	for i := 0; i < 6; i++ {
		v = ir.NormCell(v)
		switch x := v.(type) {
		case *ssa.Parameter:
			return true
		case *ssa.Convert:
			v = x.X
		case *ssa.ChangeType:
			v = x.X
		case *ssa.Slice:
			v = x.X
		default:
			return false
		}
	}
	return false
}

// negatedByteTests: every return of the predicate f that can be true is
// reached only on the false outcomes of its `!=` byte tests (the tests are
// used as refusals: a mismatch leads to false).
func negatedByteTests(f *ssa.Function) bool {
	ok := true
	for _, r := range ir.Returns(f) {
		v := ir.ReturnResult(r, 0)
		vals := []ssa.Value{v}
		var preds []*ssa.BasicBlock
		if phi, isPhi := v.(*ssa.Phi); isPhi {
			vals = phi.Edges
			preds = phi.Block().Preds
		}
		for i, e := range vals {
			if k, isK := e.(*ssa.Const); isK && k.Value != nil && k.Value.String() == "false" {
				continue
			}
			conds := ir.CondsAt(r.Block())
			if preds != nil {
				conds = ir.EdgeConds(preds[i], v.(*ssa.Phi).Block())
			}
			for _, cd := range ir.NormConds(conds) {
				if bo, isBO := cd.V.(*ssa.BinOp); isBO && bo.Op == token.NEQ && cd.Truth {
					if u, isU := bo.X.(*ssa.UnOp); isU {
						if _, isIA := u.X.(*ssa.IndexAddr); isIA {
							ok = false // a true result although a byte differs
						}
					}
				}
			}
		}
	}
	return ok
}

// negatedLenTest: the outcome "length differs" of test leads only to false
// results of the predicate f.
func negatedLenTest(f *ssa.Function, test *ssa.BinOp) bool {
	for _, r := range ir.Returns(f) {
		v := ir.ReturnResult(r, 0)
		vals := []ssa.Value{v}
		var preds []*ssa.BasicBlock
		if phi, isPhi := v.(*ssa.Phi); isPhi {
			vals = phi.Edges
			preds = phi.Block().Preds
		}
		for i, e := range vals {
			if k, isK := e.(*ssa.Const); isK && k.Value != nil && k.Value.String() == "false" {
				continue
			}
			conds := ir.CondsAt(r.Block())
			if preds != nil {
				conds = ir.EdgeConds(preds[i], v.(*ssa.Phi).Block())
			}
			for _, cd := range ir.NormConds(conds) {
				if cd.V == ssa.Value(test) && cd.Truth {
					return false
				}
			}
		}
	}
	return true
}
