package props

import (
	"go/token"
	"go/types"

	"golang.org/x/tools/go/ssa"

	"jrpcvet/internal/chk"
	"jrpcvet/internal/ir"
)

// Operations on a Response's slot (the one-message channel through which the
// reply reaches the waiters) may be written out, or go through the methods of
// a small mailbox type that wraps the channel. An exact channel wrapper is a
// private, straight-line function that performs exactly one operation on the
// slot channel and nothing else:
//
//	put:  ch <- m                  (m a parameter)
//	take: m, ok := <-ch; return m, ok   (or: return <-ch)
//	seal: close(ch)
//
// A call of such a wrapper is read as the operation itself. The operation
// inside the wrapper is then not a site of its own.
type chanWrapper struct {
	kind   string
	msgIdx int // put: parameter index of the message
	raw    ssa.Instruction
}

func slotWrapper(c *chk.Ctx, h *ssa.Function) (chanWrapper, bool) {
	none := chanWrapper{}
	if h == nil || !c.P.InRepo[h] || ir.Exported(h) || len(h.Blocks) != 1 || h.Parent() != nil || len(h.FreeVars) != 0 || c.P.UsedAsValue(h) {
		return none, false
	}
	var w chanWrapper
	nOps, other := 0, false
	for _, ins := range h.Blocks[0].Instrs {
		switch x := ins.(type) {
		case *ssa.Send:
			if !chk.LoadsField(x.Chan, c.M.RCh) {
				other = true
				continue
			}
			nOps++
			w = chanWrapper{kind: "put", msgIdx: -1, raw: x}
			if p, ok := ir.NormCell(x.X).(*ssa.Parameter); ok {
				for i, q := range h.Params {
					if q == p {
						w.msgIdx = i
					}
				}
			}
		case *ssa.UnOp:
			if x.Op == token.ARROW {
				if !chk.LoadsField(x.X, c.M.RCh) {
					other = true
					continue
				}
				nOps++
				w = chanWrapper{kind: "take", raw: x}
			}
		case *ssa.Call:
			if b, isB := x.Call.Value.(*ssa.Builtin); isB && b.Name() == "close" && chk.LoadsField(x.Call.Args[0], c.M.RCh) {
				nOps++
				w = chanWrapper{kind: "seal", raw: x}
				continue
			}
			other = true
		case *ssa.Store:
			// a by-value receiver or parameter spilled into a local, or a named result filled
			// from the receive, is not an effect
			if al, isAl := x.Addr.(*ssa.Alloc); isAl && !al.Heap {
				continue
			}
			other = true
		case *ssa.Go, *ssa.Defer, *ssa.Panic, *ssa.RunDefers, *ssa.MapUpdate, *ssa.Select:
			other = true
		}
	}
	if nOps != 1 || other {
		return none, false
	}
	switch w.kind {
	case "put":
		if w.msgIdx < 0 {
			return none, false
		}
	case "take":
		u := w.raw.(*ssa.UnOp)
		for _, r := range ir.Returns(h) {
			if u.CommaOk {
				if len(r.Results) != 2 {
					return none, false
				}
				for i := range r.Results {
					if !ir.IsExtractOf(ir.NormCell(ir.ReturnResult(r, i)), u, i) {
						return none, false
					}
				}
			} else if len(r.Results) != 1 || ir.NormCell(ir.ReturnResult(r, 0)) != ssa.Value(u) {
				return none, false
			}
		}
	}
	return w, true
}

// inSlotWrapper: ins is the operation inside an exact channel wrapper (judged
// at the wrapper's call sites instead).
func inSlotWrapper(c *chk.Ctx, ins ssa.Instruction) bool {
	_, ok := slotWrapper(c, ins.Parent())
	return ok
}

// slotOwnerOf: the Response whose slot a channel operand / wrapper receiver
// belongs to: the base of the outermost field selection.
func slotOwnerOf(c *chk.Ctx, v ssa.Value) ssa.Value {
	isResp := func(x ssa.Value) bool {
		t := x.Type()
		if p, ok := t.Underlying().(*types.Pointer); ok {
			t = p.Elem()
		}
		return types.Unalias(t) == types.Type(c.M.Response)
	}
	for i := 0; i < 6; i++ {
		if isResp(v) {
			return ir.NormCell(v)
		}
		switch x := v.(type) {
		case *ssa.UnOp:
			if x.Op != token.MUL {
				return ir.NormCell(v)
			}
			v = x.X
		case *ssa.FieldAddr:
			v = x.X
		case *ssa.Field:
			v = x.X
		case *ssa.Call:
			// a pure getter: the field of its receiver argument
			if ir.GetterLoad(x) != ssa.Value(x) && len(x.Call.Args) == 1 {
				v = x.Call.Args[0]
				continue
			}
			return ir.NormCell(v)
		default:
			return ir.NormCell(v)
		}
	}
	return ir.NormCell(v)
}

// slotRecvAt: ins receives from a response slot — the receive itself, or the
// call of a take wrapper. tuple is the value whose components are the message
// and (commaOk) the ok flag, as for a comma-ok receive.
func slotRecvAt(c *chk.Ctx, ins ssa.Instruction) (tuple ssa.Value, commaOk, ok bool) {
	if u, isU := ins.(*ssa.UnOp); isU && u.Op == token.ARROW && chk.LoadsField(u.X, c.M.RCh) {
		if inSlotWrapper(c, ins) {
			return nil, false, false
		}
		return u, u.CommaOk, true
	}
	if call, isCall := ins.(*ssa.Call); isCall {
		if w, isW := slotWrapper(c, call.Call.StaticCallee()); isW && w.kind == "take" {
			return call, w.raw.(*ssa.UnOp).CommaOk, true
		}
	}
	return nil, false, false
}

// slotWriteAt: ins writes a message into a response slot — the send itself, or
// the call of a put wrapper. resp is the Response whose slot it is.
func slotWriteAt(c *chk.Ctx, ins ssa.Instruction) (msg, resp ssa.Value, ok bool) {
	if s, isS := ins.(*ssa.Send); isS && chk.LoadsField(s.Chan, c.M.RCh) {
		if inSlotWrapper(c, ins) {
			return nil, nil, false
		}
		return s.X, slotOwnerOf(c, s.Chan), true
	}
	if call, isCall := ins.(*ssa.Call); isCall {
		if w, isW := slotWrapper(c, call.Call.StaticCallee()); isW && w.kind == "put" && w.msgIdx < len(call.Call.Args) && len(call.Call.Args) > 0 {
			return call.Call.Args[w.msgIdx], slotOwnerOf(c, call.Call.Args[0]), true
		}
	}
	return nil, nil, false
}

// slotCloseAt: ins closes a response slot (close itself, or a seal wrapper's call).
func slotCloseAt(c *chk.Ctx, ins ssa.Instruction) bool {
	call, isCall := ins.(*ssa.Call)
	if !isCall {
		return false
	}
	if b, isB := call.Call.Value.(*ssa.Builtin); isB && b.Name() == "close" && len(call.Call.Args) == 1 && chk.LoadsField(call.Call.Args[0], c.M.RCh) {
		return !inSlotWrapper(c, ins)
	}
	w, isW := slotWrapper(c, call.Call.StaticCallee())
	return isW && w.kind == "seal"
}

// freshOwner reports whether addr — the base of a field address — lies inside a
// value that is being built and has not escaped yet: a fresh allocation, or a
// field (of a field …) of one: `&Server{calls: callTable{wait: make(…)}}`
// stores into &alloc.calls.wait.
func freshOwner(c *chk.Ctx, base ssa.Value) bool {
	for i := 0; i < 4; i++ {
		if _, ok := ir.NormCell(base).(*ssa.Alloc); ok {
			return true
		}
		if _, ok := c.P.Canon(base).(*ssa.Alloc); ok {
			return true
		}
		fa, ok := base.(*ssa.FieldAddr)
		if !ok {
			return false
		}
		base = fa.X
	}
	return false
}
