// Package facts implements the shared forward must-dataflow: which mutexes are
// definitely held / definitely not held, and which lock-protected fields are
// definitely nil / non-nil, at every instruction of every repository function.
//
// Locks and fields are identified by access path (named struct type, field),
// not by SSA value: go/ssa does not CSE loads, and receivers reach closures as
// free variables. The side condition that makes this sound (no function
// handles two distinct roots of the same lock-owning type) is checked by
// CheckSingleRoot.
package facts

import (
	"fmt"
	"go/token"
	"go/types"
	"os"
	"sort"
	"strings"

	"golang.org/x/tools/go/ssa"

	"jrpcvet/internal/ir"
)

// Path names a field of a named struct type.
type Path struct {
	Owner *types.TypeName
	Field *types.Var
}

func (p Path) String() string {
	if p.Owner == nil {
		return "<nil>"
	}
	return p.Owner.Name() + "." + p.Field.Name()
}

type Kind uint8

const (
	Held Kind = iota + 1
	NotHeld
	NonNil
	IsNil
)

func (k Kind) String() string { return [...]string{"?", "Held", "NotHeld", "NonNil", "IsNil"}[k] }

type Fact struct {
	K Kind
	P Path
}

func (f Fact) String() string { return f.K.String() + "(" + f.P.String() + ")" }

// State is a set of facts; a nil State is TOP (not yet reached).
type State map[Fact]struct{}

func (s State) Has(k Kind, p Path) bool { _, ok := s[Fact{k, p}]; return ok }

// HasNamed looks a fact up by "Owner.field" string.
func (s State) HasNamed(k Kind, path string) bool {
	for f := range s {
		if f.K == k && f.P.String() == path {
			return true
		}
	}
	return false
}

func (s State) Clone() State {
	if s == nil {
		return nil
	}
	o := make(State, len(s))
	for f := range s {
		o[f] = struct{}{}
	}
	return o
}
func (s State) add(k Kind, p Path) { s[Fact{k, p}] = struct{}{} }
func (s State) del(k Kind, p Path) { delete(s, Fact{k, p}) }
func (s State) killFieldFactsOfOwner(o *types.TypeName) {
	for f := range s {
		if (f.K == NonNil || f.K == IsNil) && f.P.Owner == o {
			delete(s, f)
		}
	}
}
func (s State) String() string {
	if s == nil {
		return "TOP"
	}
	var xs []string
	for f := range s {
		xs = append(xs, f.String())
	}
	sort.Strings(xs)
	return "{" + strings.Join(xs, " ") + "}"
}

// Held lists the locks held in s.
func (s State) HeldLocks() []Path {
	var out []Path
	for f := range s {
		if f.K == Held {
			out = append(out, f.P)
		}
	}
	sort.Slice(out, func(i, j int) bool { return out[i].String() < out[j].String() })
	return out
}

func meet(a, b State) State {
	if a == nil {
		return b.Clone()
	}
	if b == nil {
		return a.Clone()
	}
	o := State{}
	for f := range a {
		if _, ok := b[f]; ok {
			o[f] = struct{}{}
		}
	}
	return o
}

func equal(a, b State) bool {
	if (a == nil) != (b == nil) || len(a) != len(b) {
		return false
	}
	for f := range a {
		if _, ok := b[f]; !ok {
			return false
		}
	}
	return true
}

// PathOf resolves v to the field path it addresses (FieldAddr) or loads
// (*FieldAddr).
func PathOf(v ssa.Value) (Path, bool) {
	v = ir.GetterLoad(v)
	if u, ok := v.(*ssa.UnOp); ok && u.Op == token.MUL {
		v = u.X
	}
	fa, ok := v.(*ssa.FieldAddr)
	if !ok {
		return Path{}, false
	}
	named := ir.FieldOwner(fa)
	fv := ir.FieldVar(fa)
	if named == nil || fv == nil {
		return Path{}, false
	}
	return Path{named.Obj(), fv}, true
}

// LockPath resolves the receiver of a mutex operation: `&s.mu` for a value
// mutex field or `*(&s.mu)` for a pointer mutex field.
func LockPath(recv ssa.Value) (Path, bool) { return PathOf(recv) }

// LoadPath reports the path loaded by v when v is exactly `*(&x.f)`.
func LoadPath(v ssa.Value) (Path, bool) {
	v = ir.GetterLoad(v)
	u, ok := v.(*ssa.UnOp)
	if !ok || u.Op != token.MUL {
		return Path{}, false
	}
	if _, ok := u.X.(*ssa.FieldAddr); !ok {
		return Path{}, false
	}
	return PathOf(v)
}

// Summary is what a caller needs to know about a callee.
type Summary struct {
	Touches     map[Path]bool // locks possibly locked or unlocked inside (transitively)
	ExitHeld    map[Path]bool // locks held at every normal exit
	ExitNotHeld map[Path]bool // locks definitely not held at every normal exit
	Writes      map[Path]bool // fields possibly stored (transitively)
}

func newSummary() Summary {
	return Summary{Touches: map[Path]bool{}, ExitHeld: map[Path]bool{}, ExitNotHeld: map[Path]bool{}, Writes: map[Path]bool{}}
}

// FuncInfo is the per-function result.
type FuncInfo struct {
	Fn    *ssa.Function
	Entry State
	in    map[*ssa.BasicBlock]State
	Exit  State // meet over normal exits, after deferred calls
	Sum   Summary
}

type CallSite struct {
	Caller *ssa.Function
	Instr  ssa.Instruction // *ssa.Call, *ssa.Defer (recorded at RunDefers), *ssa.Go, or the call passing a synchronous callback
	State  State           // facts holding just before the callee starts
	Kind   string          // "call", "defer", "go", "callback"
}

// SyncCallbacks names external higher-order functions that call their
// function argument synchronously, on the calling goroutine, before
// returning (so the closure inherits the caller's facts).
var SyncCallbacks = map[string]bool{
	"(*github.com/creachadair/mds/queue.Queue).Each": true,
	"(*expvar.Map).Do": true,
}

// isSyncTaker: the call runs its function argument(s) now, on this goroutine:
// one of the listed higher-order functions, or any iterator handed the body of
// a range-over-func loop (the language runs the loop body only while the
// iterator call is in progress).
func isSyncTaker(c *ssa.CallCommon) bool {
	if g := ir.CalleeThroughBound(c); g != nil && SyncCallbacks[ir.FullName(g)] {
		return true
	}
	for _, a := range c.Args {
		var fn *ssa.Function
		switch x := a.(type) {
		case *ssa.MakeClosure:
			fn, _ = x.Fn.(*ssa.Function)
		case *ssa.Function:
			fn = x
		}
		if fn != nil && strings.Contains(fn.Synthetic, "range-over-func") {
			return true
		}
	}
	return false
}

type Analysis struct {
	P     *ir.Prog
	Funcs map[*ssa.Function]*FuncInfo
	Sites map[*ssa.Function][]CallSite // call sites by callee, with states
	Locks []Path                       // every mutex field seen
	order []*ssa.Function
	Notes []string
	Fixed bool // fixpoint reached
}

func isMutexOp(c *ssa.CallCommon) (op string, recv ssa.Value) {
	f := c.StaticCallee()
	if f == nil || len(c.Args) == 0 {
		return "", nil
	}
	switch f.String() {
	case "(*sync.Mutex).Lock", "(*sync.RWMutex).Lock":
		return "lock", c.Args[0]
	case "(*sync.Mutex).Unlock", "(*sync.RWMutex).Unlock":
		return "unlock", c.Args[0]
	}
	return "", nil
}

// MutexOp is IsMutexOp that also resolves a mutex handed to a private
// function as a parameter (`func (b *barrier) wait(mu *sync.Mutex)`), when
// every call site passes the same mutex field.
func (a *Analysis) MutexOp(c *ssa.CallCommon) (op string, path Path, ok bool) {
	if op, path, ok = IsMutexOp(c); ok {
		return
	}
	o, recv := isMutexOp(c)
	if o == "" {
		return "", Path{}, false
	}
	par, isPar := recv.(*ssa.Parameter)
	if !isPar {
		return "", Path{}, false
	}
	f := par.Parent()
	idx := -1
	for i, q := range f.Params {
		if q == par {
			idx = i
		}
	}
	sites := a.P.Callers(f)
	if idx < 0 || len(sites) == 0 || a.P.UsedAsValue(f) || ir.Exported(f) {
		return "", Path{}, false
	}
	var found Path
	for i, s := range sites {
		args := s.Instr.Common().Args
		if idx >= len(args) {
			return "", Path{}, false
		}
		lp, okp := LockPath(args[idx])
		if !okp || (i > 0 && lp != found) {
			return "", Path{}, false
		}
		found = lp
	}
	return o, found, true
}

// IsMutexOp exposes mutex-call recognition.
func IsMutexOp(c *ssa.CallCommon) (op string, path Path, ok bool) {
	o, recv := isMutexOp(c)
	if o == "" {
		return "", Path{}, false
	}
	p, ok := LockPath(recv)
	return o, p, ok
}

// Analyze runs the interprocedural fixpoint.
func Analyze(p *ir.Prog) *Analysis {
	a := &Analysis{P: p, Funcs: map[*ssa.Function]*FuncInfo{}, Sites: map[*ssa.Function][]CallSite{}}
	seenLock := map[Path]bool{}
	for _, f := range p.Funcs {
		a.order = append(a.order, f)
		a.Funcs[f] = &FuncInfo{Fn: f, Sum: newSummary()}
		ir.Calls(f, func(ci ssa.CallInstruction) {
			if _, lp, ok := IsMutexOp(ci.Common()); ok && !seenLock[lp] {
				seenLock[lp] = true
				a.Locks = append(a.Locks, lp)
			}
		})
	}
	sort.Slice(a.Locks, func(i, j int) bool { return a.Locks[i].String() < a.Locks[j].String() })
	// The equations are iterated as they stand first. Summaries and entry states feed each other
	// with a round's delay, so two consistent solutions can alternate for ever (a lock taken
	// through a one-line wrapper is enough); when that happens the iteration is continued
	// upwards (facts of either iterate are kept) and the result is accepted only if a plain
	// round then changes nothing, i.e. it is a fixpoint of the undamped equations; failing
	// that it is continued downwards (only facts confirmed again are kept), which ends in a
	// state every fact of which is re-derived from the state itself (a post-fixpoint, hence
	// below the greatest fixpoint and sound for must-facts).
	mode := "plain"
	step := func(round int) bool {
		changed := false
		a.Sites = map[*ssa.Function][]CallSite{}
		for _, f := range a.order {
			old := a.Funcs[f].Sum
			if a.run(f) {
				changed = true
				if round > 25 && os.Getenv("JRPCVET_DEBUG") != "" {
					fmt.Fprintf(os.Stderr, "facts round %d: summary of %s changed: %v\n", round, f, a.Funcs[f].Sum)
				}
			}
			if mode != "plain" {
				cur := a.Funcs[f].Sum
				for _, pair := range [][2]map[Path]bool{{old.ExitHeld, cur.ExitHeld}, {old.ExitNotHeld, cur.ExitNotHeld}} {
					o, n := pair[0], pair[1]
					if mode == "up" {
						for k := range o {
							n[k] = true
						}
					} else {
						for k := range n {
							if !o[k] {
								delete(n, k)
							}
						}
					}
				}
				// a lock cannot be both
				for k := range cur.ExitHeld {
					if cur.ExitNotHeld[k] {
						delete(cur.ExitHeld, k)
						delete(cur.ExitNotHeld, k)
					}
				}
				changed = changed && (!sameSet(old.ExitHeld, cur.ExitHeld) || !sameSet(old.ExitNotHeld, cur.ExitNotHeld) || !sameSet(old.Touches, cur.Touches) || !sameSet(old.Writes, cur.Writes))
			}
		}
		for _, f := range a.order {
			fi := a.Funcs[f]
			e := a.entryFor(f)
			switch mode {
			case "up":
				if fi.Entry != nil {
					for k := range fi.Entry {
						e[k] = struct{}{}
					}
				}
			case "down":
				if fi.Entry != nil {
					e = meet(e, fi.Entry)
				}
			}
			if !equal(e, fi.Entry) {
				if round > 25 && os.Getenv("JRPCVET_DEBUG") != "" {
					fmt.Fprintf(os.Stderr, "facts round %d: entry of %s changed: %v -> %v\n", round, f, fi.Entry, e)
				}
				fi.Entry = e
				changed = true
			}
		}
		return changed
	}
	round := 0
	for ; round < 30; round++ {
		if !step(round) {
			a.Notes = append(a.Notes, fmt.Sprintf("fixpoint after %d rounds over %d functions", round+1, len(a.order)))
			a.Fixed = true
			return a
		}
	}
	for _, m := range []string{"up", "down"} {
		mode = m
		stable := false
		for i := 0; i < 40; i++ {
			round++
			if !step(round) {
				stable = true
				break
			}
		}
		if !stable {
			continue
		}
		if m == "down" {
			a.Notes = append(a.Notes, fmt.Sprintf("alternating solutions; settled downwards after %d rounds (every fact re-derived from the final state)", round+1))
			a.Fixed = true
			return a
		}
		mode = "plain"
		round++
		if !step(round) {
			a.Notes = append(a.Notes, fmt.Sprintf("alternating solutions; fixpoint of the plain equations reached upwards after %d rounds", round+1))
			a.Fixed = true
			return a
		}
	}
	a.Notes = append(a.Notes, "NO FIXPOINT after 30 rounds")
	return a
}

// apiState is what holds when the library is entered from outside or a
// goroutine starts: none of the (unexported) locks is held by this goroutine.
func (a *Analysis) apiState() State {
	s := State{}
	for _, l := range a.Locks {
		s.add(NotHeld, l)
	}
	return s
}

func (a *Analysis) entryFor(f *ssa.Function) State {
	var e State
	sites := a.Sites[f]
	for _, cs := range sites {
		if cs.Kind == "go" {
			e = meet(e, a.apiState())
			continue
		}
		e = meet(e, cs.State)
	}
	if ir.Exported(f) {
		e = meet(e, a.apiState())
	}
	if f.Parent() == nil && (f.Name() == "init" || strings.HasPrefix(f.Name(), "init#")) {
		e = meet(e, a.apiState())
	}
	if a.P.UsedAsValue(f) && !a.onlySyncCallback(f) {
		// may be called from code we do not see: nothing is known
		e = meet(e, State{})
	}
	if e == nil {
		e = State{} // unreachable from anything we know
	}
	return e
}

// onlySyncCallback: f is referenced as a value only as the argument of a
// synchronous callback taker (recorded as "callback" sites) or through cells
// and fields that callee resolution sees through.
func (a *Analysis) onlySyncCallback(f *ssa.Function) bool {
	// Every value reference must be accounted for by a recorded site. We
	// approximate: if resolution found at least one site and the function is
	// a closure whose MakeClosure referrers are all calls, stores to local
	// cells, or returns from a function whose results are only called.
	if f.Parent() == nil {
		return false
	}
	ok := true
	for _, b := range f.Parent().Blocks {
		for _, ins := range b.Instrs {
			mc, isMC := ins.(*ssa.MakeClosure)
			if !isMC || mc.Fn != f {
				continue
			}
			for _, r := range *mc.Referrers() {
				switch u := r.(type) {
				case ssa.CallInstruction:
					c := u.Common()
					if c.Value == ssa.Value(mc) {
						continue
					}
					if isSyncTaker(c) {
						continue
					}
					// a private wrapper that only hands the function on to such a taker (or
					// calls it): `func (q *queue) each(f func(T) bool) { q.items.Each(f) }`
					if g := c.StaticCallee(); g != nil && a.P.InRepo[g] {
						handed := true
						for i, arg := range c.Args {
							if arg == ssa.Value(mc) && !a.onlyRunsParam(g, i, 0) {
								handed = false
							}
						}
						if handed {
							continue
						}
					}
					ok = false
				case *ssa.Store:
					if _, isAlloc := u.Addr.(*ssa.Alloc); isAlloc && u.Val == ssa.Value(mc) {
						// local function cell: resolved by ir.Callees; the cell
						// must not itself escape
						if cellEscapes(u.Addr.(*ssa.Alloc)) {
							ok = false
						}
						continue
					}
					ok = false
				case *ssa.Return:
					// returned closure: fine if every caller only calls the result
					if !resultsOnlyCalled(a.P, f.Parent()) {
						ok = false
					}
				case *ssa.Phi:
					// one of several closures chosen for a single return (`after := func(){}; if …
					// { after = func(){…} }; return after`)
					if !phiOnlyReturned(u, 0) || !resultsOnlyCalled(a.P, f.Parent()) {
						ok = false
					}
				default:
					ok = false
				}
			}
		}
	}
	return ok
}

// onlyRunsParam: the only things g does with its idx'th parameter (a function)
// are to call it, or to hand it to a synchronous callback taker or to another
// private function of which the same holds.
func (a *Analysis) onlyRunsParam(g *ssa.Function, idx, depth int) bool {
	if depth > 2 || idx >= len(g.Params) || len(g.Blocks) == 0 {
		return false
	}
	par := g.Params[idx]
	refs := par.Referrers()
	if refs == nil {
		return true
	}
	// onlyCalled: every use of the function value v is a call of it
	var onlyCalled func(v ssa.Value) bool
	onlyCalled = func(v ssa.Value) bool {
		rs := v.Referrers()
		if rs == nil {
			return true
		}
		for _, r := range *rs {
			switch x := r.(type) {
			case *ssa.DebugRef:
			case ssa.CallInstruction:
				if x.Common().Value != v {
					return false
				}
			default:
				return false
			}
		}
		return true
	}
	for _, r := range *refs {
		// the parameter is captured by a closure of g (go/ssa spills it into a cell first): the
		// closure may only call it, and must itself run synchronously
		if st, isSt := r.(*ssa.Store); isSt && st.Val == ssa.Value(par) {
			cell, isCell := st.Addr.(*ssa.Alloc)
			if !isCell {
				return false
			}
			for _, cr := range *cell.Referrers() {
				switch x := cr.(type) {
				case *ssa.Store:
					if x != st {
						return false
					}
				case *ssa.DebugRef:
				case *ssa.UnOp:
					if !onlyCalled(x) {
						return false
					}
				case *ssa.MakeClosure:
					inner := x.Fn.(*ssa.Function)
					for bi, bnd := range x.Bindings {
						if bnd != ssa.Value(cell) || bi >= len(inner.FreeVars) {
							continue
						}
						fvRefs := inner.FreeVars[bi].Referrers()
						if fvRefs == nil {
							continue
						}
						for _, fr := range *fvRefs {
							ld, isLd := fr.(*ssa.UnOp)
							if !isLd || !onlyCalled(ld) {
								return false
							}
						}
					}
					if !a.onlySyncCallback(inner) {
						return false
					}
				default:
					return false
				}
			}
			continue
		}
		ci, isCall := r.(*ssa.Call)
		if !isCall {
			if _, isDbg := r.(*ssa.DebugRef); isDbg {
				continue
			}
			return false
		}
		c := ci.Common()
		if c.Value == ssa.Value(par) {
			continue
		}
		if isSyncTaker(c) {
			continue
		}
		h := c.StaticCallee()
		if h == nil || !a.P.InRepo[h] {
			return false
		}
		for i, arg := range c.Args {
			if arg == ssa.Value(par) && !a.onlyRunsParam(h, i, depth+1) {
				return false
			}
		}
	}
	return true
}

func cellEscapes(al *ssa.Alloc) bool {
	for _, r := range *al.Referrers() {
		switch u := r.(type) {
		case *ssa.Store:
			if u.Addr != ssa.Value(al) {
				return true
			}
		case *ssa.UnOp:
		case *ssa.MakeClosure:
			// captured by a closure of the same function: ok (closure analysed too)
		case *ssa.DebugRef:
		default:
			return true
		}
	}
	return false
}

func resultsOnlyCalled(p *ir.Prog, f *ssa.Function) bool {
	if ir.Exported(f) || p.UsedAsValue(f) {
		return false
	}
	sites := p.Callers(f)
	if len(sites) == 0 {
		return false
	}
	for _, s := range sites {
		v, ok := s.Instr.(*ssa.Call)
		if !ok {
			return false
		}
		for _, r := range *v.Referrers() {
			ci, ok := r.(ssa.CallInstruction)
			if !ok || ci.Common().Value != ssa.Value(v) {
				return false
			}
		}
	}
	return true
}

// run analyses one function with its current entry state and the current
// callee summaries; reports whether its summary changed.
func (a *Analysis) run(f *ssa.Function) bool {
	fi := a.Funcs[f]
	entry := fi.Entry
	if entry == nil {
		entry = State{}
	}
	in := map[*ssa.BasicBlock]State{}
	in[f.Blocks[0]] = entry.Clone()
	sum := newSummary()
	var exit State
	work := []*ssa.BasicBlock{f.Blocks[0]}
	queued := map[*ssa.BasicBlock]bool{f.Blocks[0]: true}
	iter := 0
	for len(work) > 0 {
		iter++
		if iter > 20000 {
			a.Notes = append(a.Notes, "block fixpoint overflow in "+f.String())
			break
		}
		b := work[0]
		work = work[1:]
		queued[b] = false
		st := in[b].Clone()
		if st == nil {
			continue
		}
		for _, ins := range b.Instrs {
			a.transfer(f, st, ins, &sum, nil)
		}
		for i, s := range b.Succs {
			out := st.Clone()
			if iff, ok := b.Instrs[len(b.Instrs)-1].(*ssa.If); ok {
				refine(out, iff.Cond, i == 0)
			}
			n := meet(in[s], out)
			if !equal(n, in[s]) {
				in[s] = n
				if !queued[s] {
					queued[s] = true
					work = append(work, s)
				}
			}
		}
	}
	for _, b := range f.Blocks {
		if in[b] == nil || len(b.Instrs) == 0 {
			continue
		}
		if _, ok := b.Instrs[len(b.Instrs)-1].(*ssa.Return); !ok {
			continue
		}
		st := in[b].Clone()
		saved := a.Sites
		a.Sites = map[*ssa.Function][]CallSite{} // already recorded by the block pass
		for _, ins := range b.Instrs {
			a.transfer(f, st, ins, &sum, nil)
		}
		a.Sites = saved
		exit = meet(exit, st)
	}
	if exit == nil {
		exit = State{}
	}
	for ft := range exit {
		if ft.K == Held {
			sum.ExitHeld[ft.P] = true
		}
		if ft.K == NotHeld {
			sum.ExitNotHeld[ft.P] = true
		}
	}
	fi.in = in
	fi.Exit = exit
	changed := !sameSet(sum.Touches, fi.Sum.Touches) || !sameSet(sum.ExitHeld, fi.Sum.ExitHeld) ||
		!sameSet(sum.ExitNotHeld, fi.Sum.ExitNotHeld) || !sameSet(sum.Writes, fi.Sum.Writes)
	fi.Sum = sum
	return changed
}

func sameSet(a, b map[Path]bool) bool {
	if len(a) != len(b) {
		return false
	}
	for k := range a {
		if !b[k] {
			return false
		}
	}
	return true
}

// refine adds the facts implied by cond being `truth`.
func refine(st State, cond ssa.Value, truth bool) {
	// a one-line accessor of a helper record stands for what it returns: `l.isOpen()` for
	// `l.ch != nil`, `l.cause()` for `l.err` (facts are keyed by type and field, so the
	// callee's own expression names the same path)
	cond = throughAccessor(cond)
	x, eq, ok := ir.NilCompare(cond)
	if !ok {
		return
	}
	x = throughAccessor(x)
	p, okp := LoadPath(x)
	if !okp {
		return
	}
	isNil := eq == truth
	st.del(NonNil, p)
	st.del(IsNil, p)
	if isNil {
		st.add(IsNil, p)
	} else {
		st.add(NonNil, p)
	}
}

// throughAccessor: v is a call of an unexported, straight-line, effect-free
// method with no arguments that returns a field of its receiver, or a nil test
// of one: the returned expression.
func throughAccessor(v ssa.Value) ssa.Value {
	call, ok := v.(*ssa.Call)
	if !ok {
		return v
	}
	g := call.Call.StaticCallee()
	if g == nil || ir.Exported(g) || len(g.Blocks) != 1 || g.Signature.Recv() == nil || len(g.Params) != 1 || g.Signature.Results().Len() != 1 {
		return v
	}
	var ret *ssa.Return
	for _, ins := range g.Blocks[0].Instrs {
		switch x := ins.(type) {
		case *ssa.Return:
			ret = x
		case *ssa.FieldAddr, *ssa.UnOp, *ssa.BinOp, *ssa.DebugRef, *ssa.Alloc, *ssa.Field:
		case *ssa.Store:
			if _, isAl := x.Addr.(*ssa.Alloc); !isAl {
				return v
			}
		default:
			return v
		}
	}
	if ret == nil || len(ret.Results) != 1 {
		return v
	}
	r := ret.Results[0]
	if _, ok := LoadPath(r); ok {
		return r
	}
	if x, _, isCmp := ir.NilCompare(r); isCmp {
		if _, ok := LoadPath(x); ok {
			return r
		}
	}
	return v
}

// Visitor, when non-nil, is called with the state holding just before ins.
type Visitor func(ins ssa.Instruction, st State)

func (a *Analysis) transfer(f *ssa.Function, st State, ins ssa.Instruction, sum *Summary, visit Visitor) {
	if visit != nil {
		visit(ins, st)
	}
	switch x := ins.(type) {
	case *ssa.Call:
		a.applyCall(f, st, x, x, "call", sum)
	case *ssa.Go:
		gs, _ := a.P.Callees(x)
		for _, g := range gs {
			if a.P.InRepo[g] {
				a.Sites[g] = append(a.Sites[g], CallSite{Caller: f, Instr: x, State: st.Clone(), Kind: "go"})
			}
		}
	case *ssa.RunDefers:
		var ds []*ssa.Defer
		for _, b := range f.Blocks {
			for _, i2 := range b.Instrs {
				if d, ok := i2.(*ssa.Defer); ok {
					if b == x.Block() || b.Dominates(x.Block()) {
						ds = append(ds, d)
					} else {
						// conditionally deferred: conservatively forget what it may change
						if op, lp, ok := IsMutexOp(&d.Call); ok {
							st.del(Held, lp)
							st.del(NotHeld, lp)
							_ = op
						}
					}
				}
			}
		}
		for i := len(ds) - 1; i >= 0; i-- {
			a.applyCall(f, st, ds[i], ds[i], "defer", sum)
		}
	case *ssa.Store:
		if fa, isFA := x.Addr.(*ssa.FieldAddr); isFA {
			if p, ok := PathOf(fa); ok {
				sum.Writes[p] = true
				st.del(NonNil, p)
				st.del(IsNil, p)
				switch v := x.Val.(type) {
				case *ssa.Const:
					if v.IsNil() {
						st.add(IsNil, p)
					}
				case *ssa.MakeChan, *ssa.MakeMap, *ssa.Alloc, *ssa.MakeClosure, *ssa.MakeSlice:
					st.add(NonNil, p)
				}
			}
		}
	}
}

func (a *Analysis) applyCall(f *ssa.Function, st State, ci ssa.CallInstruction, ins ssa.Instruction, kind string, sum *Summary) {
	c := ci.Common()
	if op, lp, ok := a.MutexOp(c); ok {
		sum.Touches[lp] = true
		if op == "lock" {
			st.add(Held, lp)
			st.del(NotHeld, lp)
			// what was learnt about the owner's fields before the lock was taken (a test whose
			// outcome was computed in an earlier critical section and branched on after its
			// unlock) may no longer hold: another goroutine can have run in between
			// (not when another lock of the same owner is already held: a second, inner lock
			// does not open the critical section the facts were established in)
			inner := false
			for f := range st {
				if f.K == Held && f.P.Owner == lp.Owner && f.P != lp {
					inner = true
				}
			}
			if !inner {
				st.killFieldFactsOfOwner(lp.Owner)
			}
		} else {
			st.del(Held, lp)
			st.add(NotHeld, lp)
			st.killFieldFactsOfOwner(lp.Owner)
		}
		return
	} else if op, _ := isMutexOp(c); op != "" {
		a.Notes = append(a.Notes, fmt.Sprintf("unresolved mutex receiver in %s", f))
		return
	}
	var gs []*ssa.Function
	if isSyncTaker(c) {
		// the function argument runs now, on this goroutine
		for _, arg := range c.Args {
			if _, isFn := arg.Type().Underlying().(*types.Signature); !isFn {
				continue
			}
			cbs, _ := a.P.FuncValues(arg)
			gs = append(gs, cbs...)
		}
		kind = "callback"
	} else {
		gs, _ = a.P.Callees(ci)
	}
	var results []State
	applied := false
	for _, g := range gs {
		if !a.P.InRepo[g] {
			continue
		}
		applied = true
		a.Sites[g] = append(a.Sites[g], CallSite{Caller: f, Instr: ins, State: st.Clone(), Kind: kind})
		gs := a.Funcs[g].Sum
		r := st.Clone()
		for p := range gs.Writes {
			sum.Writes[p] = true
			r.del(NonNil, p)
			r.del(IsNil, p)
		}
		for p := range gs.Touches {
			sum.Touches[p] = true
			r.killFieldFactsOfOwner(p.Owner)
			r.del(Held, p)
			r.del(NotHeld, p)
			if gs.ExitHeld[p] {
				r.add(Held, p)
			} else if gs.ExitNotHeld[p] {
				r.add(NotHeld, p)
			}
		}
		results = append(results, r)
	}
	if !applied {
		return // external or unresolved callee: cannot touch unexported locks or fields
	}
	var m State
	for _, r := range results {
		m = meet(m, r)
	}
	for k := range st {
		delete(st, k)
	}
	for k := range m {
		st[k] = struct{}{}
	}
}

// Walk replays the analysis of f, calling visit before each instruction with
// the facts that hold there (only for reachable blocks).
func (a *Analysis) Walk(f *ssa.Function, visit Visitor) {
	fi := a.Funcs[f]
	if fi == nil || fi.in == nil {
		return
	}
	saved := a.Sites
	a.Sites = map[*ssa.Function][]CallSite{}
	sum := newSummary()
	for _, b := range f.Blocks {
		st := fi.in[b].Clone()
		if st == nil {
			continue
		}
		for _, ins := range b.Instrs {
			a.transfer(f, st, ins, &sum, visit)
		}
	}
	a.Sites = saved
}

// At returns the facts holding just before ins.
func (a *Analysis) At(ins ssa.Instruction) State {
	f := ins.Parent()
	fi := a.Funcs[f]
	if fi == nil || fi.in == nil {
		return nil
	}
	b := ins.Block()
	st := fi.in[b].Clone()
	if st == nil {
		return nil
	}
	saved := a.Sites
	a.Sites = map[*ssa.Function][]CallSite{}
	sum := newSummary()
	var out State
	for _, i2 := range b.Instrs {
		if i2 == ins {
			out = st.Clone()
			break
		}
		a.transfer(f, st, i2, &sum, nil)
	}
	a.Sites = saved
	return out
}

// AtRunDefers returns the facts holding when the deferred call d starts
// running at function exit (meet over all RunDefers it reaches).
func (a *Analysis) AtDeferred(d *ssa.Defer) State {
	var out State
	for _, cs := range a.allSitesOf(d) {
		out = meet(out, cs.State)
	}
	return out
}

func (a *Analysis) allSitesOf(ins ssa.Instruction) []CallSite {
	var out []CallSite
	for _, sites := range a.Sites {
		for _, cs := range sites {
			if cs.Instr == ins {
				out = append(out, cs)
			}
		}
	}
	return out
}

// Explain lists, for a function whose entry lacks lock l, the call sites that
// enter it without l.
func (a *Analysis) EntrySitesWithout(f *ssa.Function, l Path) []CallSite {
	var out []CallSite
	for _, cs := range a.Sites[f] {
		if cs.Kind == "go" || !cs.State.Has(Held, l) {
			out = append(out, cs)
		}
	}
	return out
}

// CheckSingleRoot verifies that no repository function handles two distinct
// root values of a lock-owning type (which would make path-keyed facts
// ambiguous). It returns descriptions of offenders.
func (a *Analysis) CheckSingleRoot() []string {
	owners := map[*types.TypeName]bool{}
	for _, l := range a.Locks {
		owners[l.Owner] = true
	}
	var bad []string
	for _, f := range a.order {
		roots := map[*types.TypeName]map[string]bool{}
		// two loads of one field of one base (b.srv read twice: go/ssa does not merge them) are
		// one root, provided the function never stores to that field
		var rootKey func(v ssa.Value, depth int) string
		rootKey = func(v ssa.Value, depth int) string {
			v = ir.NormCell(v)
			if u, ok := v.(*ssa.UnOp); ok && u.Op == token.MUL && depth < 4 {
				if fa, ok := u.X.(*ssa.FieldAddr); ok {
					written := false
					ir.Instrs(f, func(i2 ssa.Instruction) {
						if st, ok := i2.(*ssa.Store); ok {
							if f2, ok := st.Addr.(*ssa.FieldAddr); ok && f2.Field == fa.Field && ir.FieldOwner(f2) == ir.FieldOwner(fa) {
								written = true
							}
						}
					})
					if !written {
						return fmt.Sprintf("(%s).%d", rootKey(fa.X, depth+1), fa.Field)
					}
				}
			}
			return fmt.Sprintf("%p", v)
		}
		ir.Instrs(f, func(ins ssa.Instruction) {
			fa, ok := ins.(*ssa.FieldAddr)
			if !ok {
				return
			}
			n := ir.FieldOwner(fa)
			if n == nil || !owners[n.Obj()] {
				return
			}
			if roots[n.Obj()] == nil {
				roots[n.Obj()] = map[string]bool{}
			}
			roots[n.Obj()][rootKey(fa.X, 0)] = true
		})
		for o, rs := range roots {
			if len(rs) > 1 {
				bad = append(bad, fmt.Sprintf("%s handles %d roots of %s", ir.Name(f), len(rs), o.Name()))
			}
		}
	}
	sort.Strings(bad)
	return bad
}

// phiOnlyReturned: every use of phi (through further phis) is a return.
func phiOnlyReturned(phi *ssa.Phi, depth int) bool {
	if depth > 3 {
		return false
	}
	for _, r := range *phi.Referrers() {
		switch u := r.(type) {
		case *ssa.Return:
		case *ssa.Phi:
			if !phiOnlyReturned(u, depth+1) {
				return false
			}
		case *ssa.DebugRef:
		default:
			return false
		}
	}
	return true
}
