// Package load type-checks the repository under analysis and builds SSA.
package load

import (
	"fmt"
	"go/token"
	"go/types"
	"os"
	"sort"

	"golang.org/x/tools/go/packages"
	"golang.org/x/tools/go/ssa"
	"golang.org/x/tools/go/ssa/ssautil"
)

// Program is the loaded, type-checked, SSA-built repository.
type Program struct {
	Fset  *token.FileSet
	Pkgs  []*packages.Package
	Prog  *ssa.Program
	SSA   map[string]*ssa.Package // by import path
	Funcs []*ssa.Function         // every function with a body in repo packages (incl. closures, methods)
	Dir   string
}

const ModulePath = "github.com/creachadair/jrpc2"

// Config selects the tree and build configuration.
type Config struct {
	Dir     string
	Env     []string          // extra env (GOOS=…)
	Tags    string            // build tags
	Overlay map[string][]byte // in-memory replacements (self-validation only)
}

// Name describes the configuration.
func (c Config) Name() string {
	n := "host"
	if len(c.Env) != 0 {
		n = ""
		for _, e := range c.Env {
			n += e + " "
		}
		n = n[:len(n)-1]
	}
	if c.Tags != "" {
		n += " tags=" + c.Tags
	}
	if c.Overlay != nil {
		n += " +overlay"
	}
	return n
}

func Load(c Config) (*Program, error) {
	mode := packages.NeedName | packages.NeedFiles | packages.NeedCompiledGoFiles | packages.NeedImports |
		packages.NeedTypes | packages.NeedTypesSizes | packages.NeedSyntax | packages.NeedTypesInfo |
		packages.NeedDeps | packages.NeedModule
	env := append(os.Environ(), "GOFLAGS=-mod=mod", "GOPROXY=off", "GOSUMDB=off", "GOWORK=off", "GOTOOLCHAIN=local")
	env = append(env, c.Env...)
	cfg := &packages.Config{Mode: mode, Dir: c.Dir, Tests: false, Env: env, Overlay: c.Overlay}
	if c.Tags != "" {
		cfg.BuildFlags = []string{"-tags=" + c.Tags}
	}
	pkgs, err := packages.Load(cfg, "./...")
	if err != nil {
		return nil, err
	}
	if len(pkgs) == 0 {
		return nil, fmt.Errorf("no packages loaded from %s", c.Dir)
	}
	var errs []string
	packages.Visit(pkgs, nil, func(p *packages.Package) {
		for _, e := range p.Errors {
			errs = append(errs, e.Error())
		}
	})
	if len(errs) != 0 {
		return nil, fmt.Errorf("type/load errors: %v", errs)
	}
	sort.Slice(pkgs, func(i, j int) bool { return pkgs[i].PkgPath < pkgs[j].PkgPath })
	prog, spkgs := ssautil.Packages(pkgs, ssa.InstantiateGenerics)
	prog.Build()
	p := &Program{Dir: c.Dir, Fset: pkgs[0].Fset, Pkgs: pkgs, Prog: prog, SSA: map[string]*ssa.Package{}}
	for i, sp := range spkgs {
		if sp == nil {
			return nil, fmt.Errorf("no SSA for %s", pkgs[i].PkgPath)
		}
		p.SSA[pkgs[i].PkgPath] = sp
	}
	for _, need := range []string{"", "/channel", "/handler", "/jhttp", "/server"} {
		if p.SSA[ModulePath+need] == nil {
			return nil, fmt.Errorf("package %s%s not loaded", ModulePath, need)
		}
	}
	inRepo := map[*ssa.Package]bool{}
	for _, sp := range p.SSA {
		inRepo[sp] = true
	}
	for fn := range ssautil.AllFunctions(prog) {
		if fn.Blocks == nil || fn.Synthetic != "" && fn.Parent() == nil && fn.Syntax() == nil {
			continue
		}
		root := fn
		for root.Parent() != nil {
			root = root.Parent()
		}
		pk := root.Pkg
		if pk == nil && root.Origin() != nil {
			pk = root.Origin().Pkg
		}
		if pk != nil && inRepo[pk] {
			p.Funcs = append(p.Funcs, fn)
		}
	}
	sort.Slice(p.Funcs, func(i, j int) bool {
		a, b := p.Funcs[i], p.Funcs[j]
		if a.Pos() != b.Pos() {
			return a.Pos() < b.Pos()
		}
		return a.String() < b.String()
	})
	for _, fn := range p.Funcs {
		canonicalise(fn)
	}
	return p, nil
}

// canonicalise puts the constant operand of a comparison or of a commutative
// arithmetic operation on the right (`4 == len(b)` becomes `len(b) == 4`,
// `1 + n` becomes `n + 1`), so that the rules read one spelling. Constants
// have no referrer lists, so swapping the operands in place keeps the
// function's def-use information intact.
func canonicalise(fn *ssa.Function) {
	mirror := map[token.Token]token.Token{token.EQL: token.EQL, token.NEQ: token.NEQ, token.LSS: token.GTR, token.GTR: token.LSS, token.LEQ: token.GEQ, token.GEQ: token.LEQ}
	for _, b := range fn.Blocks {
		for _, ins := range b.Instrs {
			bo, ok := ins.(*ssa.BinOp)
			if !ok {
				continue
			}
			if _, xc := bo.X.(*ssa.Const); !xc {
				continue
			}
			if _, yc := bo.Y.(*ssa.Const); yc {
				continue
			}
			if m, isCmp := mirror[bo.Op]; isCmp {
				bo.X, bo.Y, bo.Op = bo.Y, bo.X, m
				continue
			}
			switch bo.Op {
			case token.ADD, token.MUL, token.AND, token.OR, token.XOR:
				if bt, isBasic := bo.X.Type().Underlying().(*types.Basic); isBasic && bt.Info()&types.IsNumeric != 0 {
					bo.X, bo.Y = bo.Y, bo.X
				}
			}
		}
	}
}

// Pos renders a position relative to the repo root.
func (p *Program) Pos(pos token.Pos) string {
	if !pos.IsValid() {
		return "?"
	}
	ps := p.Fset.Position(pos)
	f := ps.Filename
	if p.Dir != "" && len(f) > len(p.Dir)+1 && f[:len(p.Dir)+1] == p.Dir+"/" {
		f = f[len(p.Dir)+1:]
	}
	return fmt.Sprintf("%s:%d", f, ps.Line)
}
