#!/bin/bash
# Development aid (scratch under /tmp/mrf; needs /tmp/mechrf built from checker/cmd/mechrf and /tmp/mrf/base = a git-initialised copy of /repo HEAD).
# gen.sh <transform> <seed> <frac> : produce /tmp/mrf/out/<t>-s<seed>/patch.diff
export GOFLAGS=-mod=mod GOPROXY=off GOSUMDB=off GOTOOLCHAIN=local
t=$1; s=$2; fr=$3
w=/tmp/mrf/w-$t-$s
rm -rf $w; cp -r /tmp/mrf/base $w; cd $w
/tmp/mechrf -dir $w -t $t -seed $s -frac $fr > /tmp/mrf/out/$t-s$s.log 2>&1
if ! (go build ./... && go vet ./...) >> /tmp/mrf/out/$t-s$s.log 2>&1; then echo "$t-s$s NOBUILD"; rm -rf $w; exit; fi
mkdir -p /tmp/mrf/out/$t-s$s; git add -A; git diff --cached > /tmp/mrf/out/$t-s$s/patch.diff
if [ -n "$TESTS" ]; then go test -vet=off -count=1 -timeout 10m ./... > /tmp/mrf/out/$t-s$s/test.log 2>&1 && echo "$t-s$s tests ok" || echo "$t-s$s TESTS FAIL"; fi
echo "$t-s$s $(tail -1 /tmp/mrf/out/$t-s$s.log) $(wc -l < /tmp/mrf/out/$t-s$s/patch.diff) lines"
rm -rf $w
