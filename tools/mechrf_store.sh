#!/bin/bash
# Development aid (scratch under /tmp/mrf; needs /tmp/mechrf built from checker/cmd/mechrf and /tmp/mrf/base = a git-initialised copy of /repo HEAD).
# store.sh <variant-name> <description> : verify tests and store as /verif/refactors/mech-<name>
export GOFLAGS=-mod=mod GOPROXY=off GOSUMDB=off GOTOOLCHAIN=local
v=$1; desc=$2
w=/tmp/mrf/wst-$v
rm -rf $w; cp -r /tmp/mrf/base $w; cd $w
git apply /tmp/mrf/out/$v/patch.diff || { echo "$v NOAPPLY"; exit 1; }
(go build ./... && go vet ./...) > /dev/null 2>&1 || { echo "$v NOBUILD"; rm -rf $w; exit 1; }
go test -vet=off -count=1 -timeout 10m ./... > /tmp/mrf/out/$v/test.log 2>&1 || { echo "$v TESTS FAIL"; rm -rf $w; exit 1; }
go test -vet=off -race -count=1 -timeout 15m ./... > /tmp/mrf/out/$v/race.log 2>&1 || { echo "$v RACE FAIL"; rm -rf $w; exit 1; }
d=/verif/refactors/mech-$v; mkdir -p $d; cp /tmp/mrf/out/$v/patch.diff $d/patch.diff
python3 - "$v" "$desc" "$(head -c 400 /tmp/mrf/out/$v.log | tr '\n' ';')" <<'PY'
import json,sys
v,desc,log=sys.argv[1:4]
json.dump({"property":"all","kind":"mechanical, behaviour-preserving by construction (tools: checker/cmd/mechrf)","summary":desc,"generator_log":log,
 "why_behaviour_preserving":"each rewrite is an equivalence of the Go language applied by a program that knows nothing about the library (see checker/cmd/mechrf/main.go); the unedited test suite passes on the result",
 "verified":{"build_vet":True,"suite_runs":1,"race_run":True}}, open('/verif/refactors/mech-%s/meta.json'%v,'w'), indent=1)
PY
echo "$v stored"; rm -rf $w
