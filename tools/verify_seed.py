#!/usr/bin/env python3
"""verify_seed.py <srcdir> <seed-id>
Confirms a seeded change independently in a scratch worktree of /repo and, if it holds,
stores it under /verif/seeded/<seed-id>/ with the list of checks that catch it.
Confirmed = patch applies; builds; vets; existing suite passes with the patch (2 runs);
demo passes without the patch and fails with it."""
import json, os, subprocess, sys, shutil, tempfile, re
src, sid = sys.argv[1], sys.argv[2]
env = dict(os.environ, GOFLAGS='-mod=mod', GOPROXY='off', GOSUMDB='off', GOTOOLCHAIN='local')
def run(cmd, cwd, timeout=900):
    p = subprocess.run(cmd, cwd=cwd, env=env, shell=True, stdout=subprocess.PIPE, stderr=subprocess.STDOUT, text=True, timeout=timeout)
    return p.returncode, p.stdout
wt = tempfile.mkdtemp(prefix='seedwt.', dir='/tmp'); os.rmdir(wt)
res = {'id': sid, 'confirmed': False}
try:
    rc, out = run(f'git -C /repo worktree add --detach -q {wt} HEAD', '/')
    assert rc == 0, out
    demo = open(f'{src}/demo_test.go').read()
    m = re.match(r'//\s*place at:\s*(\S+)', demo)
    place = m.group(1) if m else 'zz_demo_test.go'
    meta = json.load(open(f'{src}/meta.json'))
    pkgdir = os.path.dirname(place) or '.'
    demo_cmd = f'go test -vet=off -count=1 -timeout 180s -run TestDemo ./{pkgdir}'
    shutil.copy(f'{src}/demo_test.go', f'{wt}/{place}')
    rc, out = run(demo_cmd, wt); res['demo_clean_pass'] = (rc == 0)
    if rc != 0: res['demo_clean_out'] = out[-1500:]
    rc, out = run(f'git apply {src}/patch.diff', wt); res['applies'] = (rc == 0)
    if rc == 0:
        rc, out = run(demo_cmd, wt); res['demo_patched_fail'] = (rc != 0); res['demo_patched_tail'] = out[-600:]
        os.remove(f'{wt}/{place}')
        rc, out = run('go build ./... && go vet ./...', wt); res['build_vet'] = (rc == 0)
        ok = True
        for i in range(2):
            rc, out = run('go test -vet=off -count=1 -timeout 10m ./...', wt)
            if rc != 0: ok = False; res['suite_out'] = out[-1500:]
        res['suite_patched_pass'] = ok
        caught = []
        for i in range(1, 21):
            pid = f'C{i:02d}'
            rc, out = run(f'/verif/bin/jrpcvet -repo {wt} -no-evidence -property {pid}', wt)
            if rc != 0:
                rules = sorted(set(re.findall(r'^(?:VIOLATED|UNDECIDED) \S+ \[[^\]]*\] (\S+) in', out, re.M)))
                caught.append({'check': pid, 'rules': rules})
        res['caught_by'] = caught
        res['confirmed'] = bool(res['demo_clean_pass'] and res['demo_patched_fail'] and res['build_vet'] and res['suite_patched_pass'])
    if res['confirmed']:
        d = f'/verif/seeded/{sid}'; os.makedirs(d, exist_ok=True)
        shutil.copy(f'{src}/patch.diff', d); shutil.copy(f'{src}/demo_test.go', d)
        json.dump({'id': sid, 'breaks_property': meta.get('property'), 'summary': meta.get('summary'),
                   'files': meta.get('files'), 'functions': meta.get('functions'),
                   'needs_to_manifest': meta.get('needs_to_manifest'),
                   'demo_place_at': place, 'demo_cmd': demo_cmd,
                   'what_i_ran': 'scratch worktree of /repo HEAD: demo passes on the clean tree; with patch.diff applied: go build+vet clean, existing suite passes twice, demo fails; then every registered check was run on the patched worktree',
                   'confirmed': {k: res[k] for k in ('demo_clean_pass','demo_patched_fail','build_vet','suite_patched_pass')},
                   'caught_by': res['caught_by'], 'author': 'independent sub-agent (given only the property text and a scratch worktree)'},
                  open(f'{d}/meta.json', 'w'), indent=1)
finally:
    subprocess.run(f'git -C /repo worktree remove --force {wt}', shell=True, stdout=subprocess.DEVNULL, stderr=subprocess.DEVNULL)
print(json.dumps({k: res.get(k) for k in ('id','confirmed','applies','demo_clean_pass','demo_patched_fail','build_vet','suite_patched_pass')}), 'caught_by=', [c['check'] for c in res.get('caught_by', [])])
if not res['confirmed']:
    print(json.dumps(res, indent=1)[:3000])
