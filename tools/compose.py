#!/usr/bin/env python3
"""Development aid: compose each seeded breakage with behaviour-preserving
refactors of the same property (refactor first, then the seed) and write the
combined patches to a directory, to check that the generalised rules still
report the breakage after the code has been restructured.
usage: compose.py <outdir> [max-per-seed]"""
import json, glob, os, subprocess, sys, shutil, tempfile
out = sys.argv[1]; per = int(sys.argv[2]) if len(sys.argv) > 2 else 3
os.makedirs(out, exist_ok=True)
base = tempfile.mkdtemp(prefix='cmpbase')
subprocess.check_call('git -C /repo archive HEAD | tar -x -C %s' % base, shell=True)
subprocess.check_call(['git', 'init', '-q'], cwd=base)
subprocess.check_call('git add -A && git -c user.email=x -c user.name=x commit -qm base', shell=True, cwd=base)
def reset():
    subprocess.check_call('git checkout -q -- . && git clean -fdq', shell=True, cwd=base)
n = 0
for sd in sorted(glob.glob('/verif/seeded/C*')):
    sid = os.path.basename(sd)
    P = sid.split('-')[0]
    sp = sd + '/patch.diff'
    if not os.path.exists(sp): continue
    got = 0
    rfs = sorted(glob.glob('/verif/refactors/*-%s-*' % P), key=lambda d: hash(d + sid))
    for rf in rfs:
        if got >= per: break
        rp = rf + '/patch.diff'
        reset()
        if subprocess.call(['git', 'apply', rp], cwd=base, stderr=subprocess.DEVNULL) != 0: continue
        if subprocess.call(['git', 'apply', sp], cwd=base, stderr=subprocess.DEVNULL) != 0: continue
        subprocess.check_call(['git', 'add', '-A'], cwd=base)
        diff = subprocess.check_output(['git', 'diff', '--cached'], cwd=base)
        subprocess.check_call('git reset -q', shell=True, cwd=base)
        d = os.path.join(out, sid + '+' + os.path.basename(rf))
        os.makedirs(d, exist_ok=True)
        open(d + '/patch.diff', 'wb').write(diff)
        got += 1; n += 1
reset(); shutil.rmtree(base)
print('composed', n)
