#!/bin/bash
# Development aid (scratch under /tmp/mrf; needs /tmp/mechrf built from checker/cmd/mechrf and /tmp/mrf/base = a git-initialised copy of /repo HEAD).
# seedchain.sh <seed-id> : seed patch, then mechanical transformations on top; result in /tmp/mrf/sc/<id>/patch.diff
export GOFLAGS=-mod=mod GOPROXY=off GOSUMDB=off GOTOOLCHAIN=local
id=$1
w=/tmp/mrf/wsc-$id
rm -rf $w; cp -r /tmp/mrf/base $w; cd $w
git apply /verif/seeded/$id/patch.diff || { echo "$id NOAPPLY"; rm -rf $w; exit; }
n=$(echo $id | cksum | cut -d' ' -f1); s=$((n % 97))
for t in rename outline flipcmp swapelse elsenest reverse lockwrap; do /tmp/mechrf -dir $w -t $t -seed $s -frac 0.5 > /dev/null 2>&1; done
if ! go build ./... > /dev/null 2>&1; then echo "$id NOBUILD"; rm -rf $w; exit; fi
mkdir -p /tmp/mrf/sc/$id; git add -A; git diff --cached > /tmp/mrf/sc/$id/patch.diff
echo "$id ok"
rm -rf $w
