#!/usr/bin/env python3
"""Regenerate checker/internal/props/shared_gen.go: for every stored breakage that
its own property's check does not report through a clause of its own, borrow the
clause(s) of the first other property that reports it. Existing entries are kept
(the table only grows), so that a breakage now reported through a shared clause
does not drop that clause again. Run after tools/recheck_seeds.py."""
import json, glob, re, collections
path = '/verif/checker/internal/props/shared_gen.go'
need = collections.defaultdict(lambda: collections.defaultdict(set))
src = open(path).read()
cur = None
for line in src.split('\n'):
    m = re.match(r'\t"(C\d\d)": \{$', line)
    if m: cur = m.group(1); continue
    m = re.match(r'\t\t"(C\d\d)": \{(.*)\},$', line)
    if m and cur:
        for r in re.findall(r'"([^"]+)"', m.group(2)): need[cur][m.group(1)].add(r)
for d in sorted(glob.glob('/verif/seeded/C*')):
    m = json.load(open(d + '/meta.json'))
    p = m.get('breaks_property') or d.split('/')[-1].split('-')[0]
    cb = m.get('caught_by', [])
    if p in [x['check'] for x in cb]: continue
    for x in sorted(cb, key=lambda x: x['check']):
        rs = [r for r in x.get('rules', []) if r not in ('FLOOR', 'ENGINE', 'ANCHOR', 'SELFTEST', 'LOAD')]
        if rs:
            for r in rs: need[p][x['check']].add(r)
            break
head = src[:src.index('var sharedRules')]
lines = ['var sharedRules = map[string]map[string][]string{']
for p in sorted(need):
    lines.append('\t"%s": {' % p)
    for q in sorted(need[p]):
        lines.append('\t\t"%s": {%s},' % (q, ', '.join('"%s"' % r for r in sorted(need[p][q]))))
    lines.append('\t},')
lines.append('}')
open(path, 'w').write(head + '\n'.join(lines) + '\n')
print('shared clauses for', len(need), 'properties')
