#!/bin/bash
# usage: trymut.sh <patch.diff|commit> <property|all> [-v]
# Applies a patch to a scratch worktree of /repo (or checks out a commit) and runs the checker on it.
set -u
what=$1; prop=$2; shift 2
wt=$(mktemp -d /tmp/trymut.XXXXXX)
rmdir "$wt"
if [ -f "$what" ]; then
  git -C /repo worktree add --detach -q "$wt" HEAD || exit 2
  git -C "$wt" apply "$what" || { echo "PATCH DOES NOT APPLY"; git -C /repo worktree remove --force "$wt"; exit 2; }
else
  git -C /repo worktree add --detach -q "$wt" "$what" || exit 2
fi
/verif/bin/jrpcvet -repo "$wt" -no-evidence -property "$prop" "$@" 2>&1 | sed "s#$wt/##g"
rc=${PIPESTATUS[0]}
git -C /repo worktree remove --force "$wt"
exit $rc
