#!/usr/bin/env python3
"""Recompute caught_by in every /verif/seeded/*/meta.json with the current checker
(one load per seed, all properties), keeping first_exposure_caught_by from the original run."""
import glob, json, re, subprocess, os
patches = sorted(glob.glob('/verif/seeded/*/patch.diff'))
out = subprocess.run(['/verif/bin/jrpcvet', '-variants', '-v'] + patches, stdout=subprocess.PIPE, text=True).stdout
cur, res = None, {}
for line in out.splitlines():
    m = re.match(r'^(/verif/seeded/[^/]+)/patch.diff: \[(.*)\]', line)
    if m:
        cur = m.group(1); res[cur] = {p: set() for p in m.group(2).split()} if m.group(2) else {}
        continue
    m = re.match(r'^\s+(C\d\d) \S+ ([A-Z]+\.?[A-Za-z]*)\|', line)
    if m and cur:
        res[cur].setdefault(m.group(1), set()).add(m.group(2))
missed = []
for d, props in sorted(res.items()):
    mp = d + '/meta.json'
    meta = json.load(open(mp))
    if 'first_exposure_caught_by' not in meta:
        meta['first_exposure_caught_by'] = meta.get('caught_by', [])
    # the verbose listing shows each rule once (under the first property that reports it); a property
    # listed without rules reports rules already shown
    allrules = sorted(set().union(*props.values())) if props else []
    meta['caught_by'] = [{'check': p, 'rules': sorted(r) if r else allrules} for p, r in sorted(props.items())]
    json.dump(meta, open(mp, 'w'), indent=1)
    if not props:
        missed.append(os.path.basename(d))
print('seeds:', len(res), 'missed:', missed)
