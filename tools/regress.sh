#!/bin/bash
# Development regression: every seeded patch must be reported by at least one check,
# every refactor patch by none. Extra dirs of refactor candidates may be given.
cd /verif
JV=${JV:-bin/jrpcvet}
echo "== seeds"
$JV -variants seeded/*/patch.diff | grep -v "\[C" | sed 's/^/MISSED /'
echo "== refactors"
$JV -variants refactors/*/patch.diff "$@" | grep "\[C\|STALE\|FAILED\|LOAD" | sed 's/^/ALARM /'
echo "== done"
