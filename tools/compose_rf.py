#!/usr/bin/env python3
"""Development aid: compose pairs of stored behaviour-preserving refactors
(first A, then B on top of it) and write the combined patches to a directory.
Every combination that still type-checks must leave every check silent.
usage: compose_rf.py <outdir> [max-per-refactor]"""
import glob, os, subprocess, sys, shutil, tempfile, hashlib
out = sys.argv[1]; per = int(sys.argv[2]) if len(sys.argv) > 2 else 2
os.makedirs(out, exist_ok=True)
base = tempfile.mkdtemp(prefix='cmpbase')
subprocess.check_call('git -C /repo archive HEAD | tar -x -C %s' % base, shell=True)
subprocess.check_call(['git', 'init', '-q'], cwd=base)
subprocess.check_call('git add -A && git -c user.email=x -c user.name=x commit -qm base', shell=True, cwd=base)
def reset():
    subprocess.check_call('git checkout -q -- . && git clean -fdq', shell=True, cwd=base)
def h(s): return hashlib.sha1(s.encode()).hexdigest()
rfs = sorted(glob.glob('/verif/refactors/*'))
n = 0
for a in rfs:
    got = 0
    for b in sorted(rfs, key=lambda d: h(d + a)):
        if got >= per: break
        if a == b: continue
        reset()
        if subprocess.call(['git', 'apply', a + '/patch.diff'], cwd=base, stderr=subprocess.DEVNULL) != 0: break
        if subprocess.call(['git', 'apply', b + '/patch.diff'], cwd=base, stderr=subprocess.DEVNULL) != 0: continue
        subprocess.check_call(['git', 'add', '-A'], cwd=base)
        diff = subprocess.check_output(['git', 'diff', '--cached'], cwd=base)
        subprocess.check_call('git reset -q', shell=True, cwd=base)
        d = os.path.join(out, os.path.basename(a) + '+' + os.path.basename(b))
        os.makedirs(d, exist_ok=True)
        open(d + '/patch.diff', 'wb').write(diff)
        got += 1; n += 1
reset(); shutil.rmtree(base)
print('composed', n)
