#!/bin/bash
# usage: tryrf.sh <archive-dir> <Cnn>...   (archives /tmp/rfw/Cnn/out to <archive-dir>/Cnn and runs every patch against all checks)
arch=$1; shift
mkdir -p "$arch"
for c in "$@"; do
  [ -d "$arch/$c" ] || cp -r /tmp/rfw/$c/out "$arch/$c"
  for r in "$arch/$c"/r*; do
    [ -f "$r/patch.diff" ] || continue
    out=$(/verif/tools/trymut.sh "$r/patch.diff" all 2>&1)
    if echo "$out" | grep -q "VIOLATION\|UNDECIDED\|PATCH DOES NOT APPLY\|panic"; then
      echo "ALARM $c/$(basename $r): $(echo "$out" | grep -c '^VIOLATION') props"
      echo "$out" > "$r/alarm.txt"
    else
      echo "silent $c/$(basename $r)"; rm -f "$r/alarm.txt"
    fi
  done
done
