#!/usr/bin/env python3
"""Regenerate /verif/MANIFEST.json from the checker's registry (bin/jrpcvet -list)
and the reasons in tools/not_applicable.json."""
import json, subprocess, os
V='/verif'
rows=json.loads(subprocess.check_output([V+'/bin/jrpcvet','-list']))
claimed={r['ID']:r for r in rows}
na_reasons=json.load(open(V+'/tools/not_applicable.json'))
props=[json.loads(l) for l in open(V+'/properties.jsonl')]
setup="cd /verif/checker && env -u GOWORK GOFLAGS=-mod=mod GOPROXY=off GOSUMDB=off GOTOOLCHAIN=local go build -o /verif/bin/jrpcvet ./cmd/jrpcvet"
m={"version":1,"setup_cmd":setup,
 "hooks":{"guard":"verif","enable":"none: static analysis needs no instrumentation; no hook commits exist (the thorough tier also loads the tree with -tags verif to notice any tagged file)",
  "baseline_off_cmd":"cd /repo && GOFLAGS=-mod=mod go test -vet=off -count=1 -timeout 25m ./...","source_commits":[],"add_only":True},
 "engines":[{"name":"jrpcvet","path":"checker/","serves_properties":sorted(claimed),
   "kind_free_text":"repository-specific static analyzer over go/packages + go/ssa (x/tools v0.29.0): interprocedural must-lockset and nil-state facts, dominance/path queries, backward value provenance, constant/predicate tables; no code of /repo is executed"}],
 "checks":[],"notes":"All claims are at level 'other': structural necessary conditions decided by static analysis of /repo's current source on every run; DESIGN.md section 4 lists decided and not-decided clauses per property. Defects found on the pinned tree were repaired by fix: commits in /repo (known_findings.json lists them as fixed; nothing is suppressed).",
 "not_applicable":[]}
for p in props:
    i=p['id']
    if i in claimed:
        r=claimed[i]
        chk={"property_id":i,
         "quick_cmd":f"bin/jrpcvet -property {i} -tier quick",
         "thorough_cmd":f"bin/jrpcvet -property {i} -tier thorough",
         "evidence_file":f"/verif/evidence/{i}.json",
         "replay_cmd_template":f"bin/jrpcvet -property {i} -explain {{path}}",
         "engine":"jrpcvet",
         "level_claimed":{"category":"other","text":"Static analysis decides structural clauses that are necessary for the property on every path, input and schedule at once; it does not decide the whole behavioural statement. Decided: "+r['Explanation']+" Not decided: "+"; ".join(r['NotDecided'] or ['-'])+".","design_ref":"DESIGN.md section 4, "+i},
         "level_note":"Trusted base: go/types, go/ssa, go/packages, the jrpcvet rules (validated against seeded breakages, see DESIGN.md section 8). Assumes: "+"; ".join(r['Assumptions'] or ['-'])+".",
         "technique":"static analysis: "+r['Technique']}
        m['checks'].append(chk)
    else:
        m['not_applicable'].append({"property_id":i,"reason":na_reasons.get(i,"check not built yet (construction in progress; see DESIGN.md)")})
json.dump(m,open(V+'/MANIFEST.json','w'),indent=1)
print("claimed:",sorted(claimed),"n/a:",[x['property_id'] for x in m['not_applicable']])
