#!/bin/bash
# Development aid (scratch under /tmp/mrf; needs /tmp/mechrf built from checker/cmd/mechrf and /tmp/mrf/base = a git-initialised copy of /repo HEAD).
# chain.sh <name> <seed> <frac> t1 t2 ... : apply several transformations in sequence
export GOFLAGS=-mod=mod GOPROXY=off GOSUMDB=off GOTOOLCHAIN=local
name=$1; s=$2; fr=$3; shift 3
w=/tmp/mrf/w-$name-$s
rm -rf $w; cp -r /tmp/mrf/base $w; cd $w
: > /tmp/mrf/out/$name-s$s.log
for t in "$@"; do /tmp/mechrf -dir $w -t $t -seed $s -frac $fr >> /tmp/mrf/out/$name-s$s.log 2>&1; done
if ! (go build ./... && go vet ./...) >> /tmp/mrf/out/$name-s$s.log 2>&1; then echo "$name-s$s NOBUILD"; rm -rf $w; exit; fi
mkdir -p /tmp/mrf/out/$name-s$s; git add -A; git diff --cached > /tmp/mrf/out/$name-s$s/patch.diff
if [ -n "$TESTS" ]; then go test -vet=off -count=1 -timeout 10m ./... > /tmp/mrf/out/$name-s$s/test.log 2>&1 && echo "$name-s$s tests ok" || echo "$name-s$s TESTS FAIL"; fi
echo "$name-s$s $(wc -l < /tmp/mrf/out/$name-s$s/patch.diff) lines"
rm -rf $w
